#!/usr/bin/env python3
"""Prepare a wave of seeded-change tasks for independent sub-agents.

usage: tools/wave_prompt.py <wave-dir, e.g. /tmp/wt9> <Cxx> [<Cxx> ...]

For each property: a scratch worktree of /repo HEAD at <wave-dir>/<Cxx>, the property's JSON at <wave-dir>/prop_<Cxx>.json and a
self-contained task file <wave-dir>/prompt_<Cxx>.txt that lists every change tried before (from seeded/*/meta.json) and asks
for one in an untouched corner.  The sub-agent is started with: "Read the file <wave-dir>/prompt_<Cxx>.txt and carry out
exactly the task it describes ... Do not read /verif or /repo."  Nothing of /verif but the property text and the list of
earlier changes reaches the agent.  Afterwards: SRC=<wave-dir>/<Cxx> NAME=<Cxx><letter> tools/confirm_seeded.sh <Cxx> <Cxx>."""
import glob
import json
import os
import subprocess
import sys

T = """You are working in a scratch git worktree of the Python library heimiricmr/bromelia (pure-Python Diameter / RFC 6733 library: bromelia/base.py = DiameterHeader / DiameterAVP / DiameterMessage / DiameterRequest / DiameterAnswer codec and containers; bromelia/types.py = typed AVP data classes; bromelia/avps/ = AVP dictionary classes; bromelia/lib/ = typed command classes per application; bromelia/_internal_utils.py, bromelia/utils.py, bromelia/config.py, bromelia/process.py = helpers, config parsing, session ids, base-message validation; bromelia/transport.py = socket thread (TCP/SCTP); bromelia/setup.py = node object `Diameter`, `DiameterAssociation` (queues, receive worker, send batching); bromelia/statemachine.py = peer state machine thread; bromelia/bromelia.py = application layer (routes, worker processes, pending answers)) at {W}/{ID}. Work ONLY inside {W}/{ID}. Do not read /verif or /repo. Python: /venv/bin/python.

RULES: (1) NEVER use `git stash`. Toggle your change with `git -C {W}/{ID} diff -- bromelia > {W}/{ID}/my_change.patch`, `git -C {W}/{ID} checkout -- bromelia`, `git -C {W}/{ID} apply {W}/{ID}/my_change.patch`. (2) Run the test-suite only inside a private network namespace and under a timeout: `cd {W}/{ID} && timeout -k 5 600 unshare -n sh -c 'ip link set lo up; exec /venv/bin/python -m pytest -q -p no:cacheprovider --timeout=900 --continue-on-collection-errors -rfE' > {W}/{ID}/test_out.txt 2>&1; tail -3 {W}/{ID}/test_out.txt` (about 100 s; baseline: 48 failed, 1638 passed, 4 errors). Once without and once with your change; the FAILED/ERROR id sets must be identical (sort and diff). (3) Kill only your own processes.

The property that should hold is in {W}/prop_{ID}.json (read it carefully, including its quantifier and its anchors: they name the code and state it is about).

TASK: make ONE small, realistic change under {W}/{ID}/bromelia/ that BREAKS this property while the package imports and every currently-passing test still passes. It must be a plausible developer slip (refactoring, "optimisation", tidy-up, copy-paste, off-by-one, wrong default, narrowed/widened condition, a moved line) that needs something SPECIFIC to manifest: particular values, a particular class, a particular sequence of calls or messages, a particular thread interleaving or socket behaviour. It must NOT show in the most ordinary use. Several changes were already tried by others; yours must differ from ALL of them in kind and in place:
{TRIED}
Read the code the anchors point to and look for a corner nobody has touched yet (an untested branch, an error path, a boundary value, a rarely used public method or constructor argument, a second instance/connection/application, a state that is only reachable after some history, an input type other than the usual one - bytes vs str vs int, a subclass, a value at the edge of the domain, a clause of the property statement none of the earlier changes attacked). Prefer a change whose effect is visible only through ONE observable (one field, one ordering, one count).

Then write {W}/{ID}/demo_{ID}.py (run: `cd {W}/{ID} && PYTHONPATH={W}/{ID} /venv/bin/python demo_{ID}.py`) exiting non-zero with your change and 0 without; where wire bytes are compared, build the expected bytes by hand (struct), not with the library; for anything with threads or sockets use 127.0.0.1 with a free port and a scripted peer built from the library's own message classes (or drive the objects directly), give the demo its own overall timeout and always terminate (os._exit). Verify both states. Do NOT commit. Leave the change applied and the demo present.

Report concisely: `git -C {W}/{ID} diff`, what it needs to manifest, commands and results."""


def main():
    wave = sys.argv[1]
    ids = sys.argv[2:]
    here = os.path.dirname(os.path.dirname(os.path.abspath(__file__)))
    os.makedirs(wave, exist_ok=True)
    props = {}
    for line in open(os.path.join(here, "properties.jsonl")):
        d = json.loads(line)
        props[d["id"]] = d
    for pid in ids:
        wt = os.path.join(wave, pid)
        if not os.path.isdir(wt):
            subprocess.check_call(["git", "-C", "/repo", "worktree", "add", "-q", "--detach", wt, "HEAD"])
        with open(os.path.join(wave, "prop_%s.json" % pid), "w") as f:
            json.dump(props[pid], f, indent=1)
        tried = []
        for d in sorted(glob.glob(os.path.join(here, "seeded", pid + "*"))):
            mp = os.path.join(d, "meta.json")
            if os.path.exists(mp):
                m = json.load(open(mp))
                tried.append("  - %s (needed: %s)" % (m["change"], m["needs_to_manifest"]))
        with open(os.path.join(wave, "prompt_%s.txt" % pid), "w") as f:
            f.write(T.replace("{W}", wave).replace("{ID}", pid).replace("{TRIED}", "\n".join(tried) or "  (none yet)"))
        print(pid, "earlier changes listed:", len(tried))


if __name__ == "__main__":
    main()
