#!/bin/bash
# usage: tools/try_seeded.sh <seeded-name> <check ids...>   - applies seeded/<name>/patch.diff to a scratch worktree of /repo HEAD
# and runs the named checks (quick tier) against it; nothing is applied to /repo itself
name=$1; shift
wt=$(mktemp -d /tmp/try-$name.XXXX); rmdir $wt
git -C /repo worktree add -q --detach $wt HEAD || exit 1
git -C $wt apply /verif/seeded/$name/patch.diff || echo "PATCH DOES NOT APPLY"
cd /verif && tools/try_mutant.sh $wt ${TIER:-quick} "$@"
git -C /repo worktree remove --force $wt
