#!/usr/bin/env python3
"""Regression over every kept change: apply seeded/<name>/patch.diff to a scratch worktree of /repo HEAD and run the quick
check(s) named in its meta.json; every one must exit 1.  usage: tools/replay_seeded.py [-j N] [name-substring ...]
(patches whose context no longer applies to HEAD - the repository was repaired since - are listed as 'does not apply')."""
import concurrent.futures
import glob
import json
import os
import re
import subprocess
import sys
import tempfile

HERE = os.path.dirname(os.path.dirname(os.path.abspath(__file__)))


def one(d):
    name = os.path.basename(d)
    meta = os.path.join(d, "meta.json")
    if not os.path.exists(meta):
        return name, "no meta.json"
    m = json.load(open(meta))
    checks = sorted(set(re.findall(r"\bC\d\d\b", " ".join(m.get("caught_by", []))))) or [m["property"]]
    wt = tempfile.mkdtemp(prefix="replay-%s-" % name, dir="/tmp")
    os.rmdir(wt)
    try:
        subprocess.check_call(["git", "-C", "/repo", "worktree", "add", "-q", "--detach", wt, "HEAD"])
        r = subprocess.run(["git", "-C", wt, "apply", os.path.join(d, "patch.diff")], capture_output=True, text=True)
        if r.returncode:
            return name, "does not apply: %s" % r.stderr.strip().splitlines()[-1][:100]
        res = []
        for c in checks:
            od = tempfile.mkdtemp(prefix="replay-out-")
            p = subprocess.run(["./run.py", c, "--tier", "quick"], cwd=HERE, env=dict(os.environ, BROMELIA_REPO=wt, VERIF_OUT_DIR=od),
                               capture_output=True, text=True)
            res.append("%s rc=%d" % (c, p.returncode))
            subprocess.run(["rm", "-rf", od])
        return name, " ".join(res)
    finally:
        subprocess.run(["git", "-C", "/repo", "worktree", "remove", "--force", wt], capture_output=True)
        subprocess.run(["rm", "-rf", wt])


def main():
    args = sys.argv[1:]
    j = 2
    if args[:1] == ["-j"]:
        j = int(args[1])
        args = args[2:]
    dirs = sorted(d for d in glob.glob(os.path.join(HERE, "seeded", "*")) if os.path.isdir(d) and (not args or any(a in os.path.basename(d) for a in args)))
    bad = 0
    with concurrent.futures.ThreadPoolExecutor(j) as ex:
        for name, res in ex.map(one, dirs):
            ok = "rc=1" in res
            bad += 0 if ok else 1
            print("%-8s %s%s" % (name, res, "" if ok else "   <-- NOT REPORTED"), flush=True)
    print("replayed %d changes, %d not reported" % (len(dirs), bad))


main()
