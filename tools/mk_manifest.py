#!/usr/bin/env python3
"""Regenerates MANIFEST.json from the table below (kept in one place so it is always valid)."""
import json, os, glob
HERE = os.path.dirname(os.path.dirname(os.path.abspath(__file__)))
CHECKS = {
 "C01": ("exploration", "reference-model runtime monitor on dump(): generated content vs independent RFC 6733 encoder",
         "Every dictionary class, generic AVPs, nested Grouped, headers and assembled messages are built through the public API from generated content and their dump()/bytes()/len()/copy()/convert() compared byte-for-byte with an independent encoder fed the same logical content. Held-on-what-was-generated, not exhaustive. Request/answer classes (header= and field arguments) are construction paths of their own; every generated message is also changed through the container API (append, extend, pop, item assignment, update_avp, avps=, cleanup) and re-compared; the thorough tier runs the repository's own test-suite with a framing monitor riding along. Header fields are also re-assigned through the attribute setters of live headers; Grouped AVPs repeat members byte for byte.",
         "refcodec (120-line encoder written from RFC 6733) and the vendored refdict.json are trusted; typed message classes are judged by C09", "3 C01"),
 "C02": ("exploration", "reference-model runtime monitor on load(): reference-encoded streams, field-by-field and re-dump comparison",
         "Streams of 1..8 messages produced by the independent encoder (arbitrary header fields and flag bytes, every dictionary class, unknown pairs, nesting) are decoded by the real code; count, order, every header/AVP field, materialised class and byte-identical re-dump are compared with the logical content. Thorough adds the exhaustive flag-byte x class grid. Includes AVP classes defined by the application after the first decode (documented extension path); the thorough tier runs the repository's own test-suite with a load/re-dump monitor riding along. A concurrent stage runs 2..4 decoding tasks at once under the deterministic scheduler with line-level preemption inside the class registry.",
         "refcodec/refdict trusted; one genuine defect is recorded as a known finding (flags of dictionary AVPs replaced by class defaults) because the pinned tests assert it", "3 C02"),
 "C10": ("exploration", "dictionary monitor + type-contract monitor (outcome of construction from any value is exception or well-formed encoding of that value)",
         "All classes discovered at run time are compared with the vendored dictionary, docs/list-of-avps.md and definitions.py; instances and load() dispatch are checked; every class is fed in-domain and out-of-domain values and the outcome judged by per-type domain predicates.",
         "refdict.json frozen from the reviewed pinned tree (codes/vendors/types checked by hand against the standards; M/P defaults frozen, not independently verified)", "3 C10"),
 "C03": ("fault_enumeration", "step-bound guard (sys.monitoring LINE events on the decoder loops) + exception-class oracle over systematic corruptions",
         "Every truncation point, every length field at every depth set to small/adjacent/extreme values (thorough: all 2^24 values at two fields), bit flips of all header bytes, typed payload faults for all dictionary classes, trailing garbage and random strings are decoded by the real code under an iteration guard; anything but 'returns' or 'library error within the step bound' is a violation. The live-node half (part B) is decided by the scheduler-based scenario runs. Part B sends 60 classes of malformed and hostile-but-decodable input (invalid UTF-8 in every text AVP, vendor-flagged base AVPs, odd widths, bursts, nesting to depth 3000) to a live node in five connection states and judges lock ownership, thread survival, responsiveness and teardown; part A sweeps nesting depths to 40000. Hostile text (long legal runs closed by an illegal character, separator runs) in every text-typed dictionary AVP is decoded in a forked child under a CPU-time limit (RLIMIT_CPU, 4 s of consumed CPU per decode), which bounds the time spent inside single C calls such as a backtracking regular expression.",
         "bound is 4*len+64 loop iterations; exceptions are classified by the module that defines them", "3 C03"),
 "C04": ("exploration", "history checker (sent vs delivered) over executions of the real node under a deterministic scheduler and a substituted transport",
         "Message sequences x segmentations (every split position of a short stream, byte-at-a-time, header-internal, random, coalescing) x recv-size scripts x schedules (round robin; random walk with line-level preemption) are executed against a real Diameter node; the sequence returned by get_message() and the order in which the state machine consumes messages are compared with what the scripted peer sent. Plus park sweeps (application consumer, receive worker and transport thread each descheduled once at every source line of their path while the other threads go on) and a real-loopback stage (unmodified node, kernel TCP on 127.0.0.1, five segmentation modes) with the same oracle. Also: seconds of silence between the segments of one message (longer than the receive worker's idle poll).",
         "vnet is a model of Linux TCP sockets; schedules are explored at synchronisation-operation and source-line granularity; bounded progress on a virtual clock", "3 C04"),
 "C05": ("exploration", "history checker (submitted vs written) + conservation over executions under the deterministic scheduler with partial-write scripts",
         "1..4 submitter tasks x message sizes x partial-write scripts (fixed, random, zero-window) x inbound traffic x schedules; the bytes the substituted socket accepted are decoded by the reference decoder and matched against the submitted messages (exactly once, whole, per-submitter order, only whole node-originated base messages besides). Plus park sweeps (a submitter, the transport thread and the state-machine thread descheduled at every line of the functions that move the stream, with a late submitter sending meanwhile), a directed window (inbound data readable at the instant of a partial write) and a real-loopback stage (small SO_SNDBUF/SO_RCVBUF, slow reader) with the same oracle. A third of the plain cases submit some messages again (same object or an equal copy); multiplicities are counted. Restart executions: two connections of one node object, a message handed in while the first one ends; the second connection's stream must carry only what was submitted on it.",
         "as C04", "3 C05"),
 "C06": ("exploration", "online trace checker: real node vs hand-written reference transition model at quiescent points (exhaustive event sequences to a stated depth)",
         "All sequences over a 19-event alphabet to depth 2 (quick) / 3 (thorough) from each model state, both roles, 0/1/3 applications, plus random longer sequences; hard clauses H1-H9 are violations, soft cells are reported as model drift. As built the alphabet has 22 events; plus the client open path under random-walk schedules, park sweeps of the state-machine thread (every event lands while the thread stands at line k of its tick, also while it is busy with a message that just arrived) and real-loopback event sequences against the hard clauses. H11 judges the release of the transport online, at the transition into Closed itself.",
         "the reference model (bvm/scen.py) is hand-written from the property statement and RFC 6733; comparison at quiescent points under round-robin scheduling and virtual time", "3 C06"),
 "C07": ("exploration", "request/answer matcher over the emitted stream (reference decoder), incl. reconnects of the same node object",
         "Sequences of base requests with boundary/random/repeated identifier pairs, back-to-back or segmented, interleaved with application traffic and send-queue floods, both roles, 1..3 connections per node object; every emitted CEA/DWA/DPA must pair with exactly one request and leave the socket before the next inbound message is taken. Stray base answers from the peer are part of the inbound mix (they must not be answered); plus real-loopback exchanges over two connections of the same node object. An application task hands forged CEA/DWA/DPA objects to send_message()/send_messages() during the exchange: none may reach the socket.",
         "identifier pairs are sampled, not enumerated", "3 C07"),
 "C08": ("fault_enumeration", "end-of-life monitor (Closed, sockets released, tasks finished, blocked callers returned, restart works) over cause x life-cycle point x schedule",
         "Termination causes {local close, peer DPR, peer disconnect, peer reset, refused connection} x life-cycle points {during connect, before CE, Open idle/inbound queued/outbound queued, consumer blocked, Closing} x roles x schedules; deadlocks and spins are detected by the scheduler. Plus a line-by-line park sweep of application threads inside send_message()/get_message() across every cause, DPR with each Disconnect-Cause, and a real-loopback stage (seven causes, thread/fd release observed through threading.enumerate() and /proc/self/fd, restart of the same object). Further points: the end lands while the state machine is inside the handling of an inbound CER/DWR/request (park sweep per handler line); on the real loopback also the library's own context() retry loop after a refused connection.",
         "bounds on the virtual clock and step counter; vnet reproduces Linux errno sequences observed on the real loopback", "3 C08"),
 "C13": ("exploration", "dispatch trace checker over a real Bromelia object with in-process workers and a recording connection layer",
         "Route tables of 1..4 applications x 1..4 command codes x typed requests x handler outcomes; which handler ran and what reached the connection layer are compared with a route-table model and the fallback rule. Handler outcomes include exceptions without arguments / of application classes, str/list/class results and answers built for another application; plus the application layer as shipped (worker process, Manager IPC, loopback peer). Connection entries serving several applications; handlers registered again for pairs that have already served requests.",
         "workers are in-process (fake manager); requests the fallback cannot be built for are observed, not judged", "3 C13"),
 "C14": ("exploration", "rendezvous history checker under the deterministic scheduler (callers, real send_handler, wire task, real dispatch threads)",
         "1..6 callers x all answer permutations (k<=4) x release policies x schedules with line-level preemption inside bromelia/bromelia.py; deadlock detection and bounded progress decide 'always wakes'. Plus park sweeps of one caller and of one dispatch thread (descheduled at every line of their path until the rest of the exchange has gone as far as it can) and the application layer as shipped (five real threads in send_message(), shuffled answers, a stray answer). One caller sending the same request object repeatedly (also after an attempt on a worker that was down).",
         "in-process workers; cross-process effects of Bromelia.run() are out of reach", "3 C14"),
 "C09": ("exploration", "reference-model runtime monitor on the typed constructors (vendored command table, argument->AVP rule, reference codec round trip)",
         "All 50 typed command classes x optional-argument subsets x generated in-domain values x extra keyword AVPs; header, order, mandatory-once, argument class and round trip are judged; omission of default-less mandatory arguments must raise a library error. Order-independence stage: all plans built in two forked children in opposite orders must give the same outcome, header and AVP codes.",
         "command table written from the RFCs/3GPP TS (bvm/refdict.py); three genuine defects are recorded as known findings", "3 C09"),
 "C11": ("exploration", "class invariant after every container operation against a list-based reference container (DFS with state hashing + random walks)",
         "Operation sequences over a small AVP alphabet on generic, decoded and typed messages; invariants I1-I4 evaluated after each operation; DFS with abstract-state hashing over lists of bounded size, random walks beyond. Start states include a typed message and the generic message convert() makes of it (the invariants watch both).",
         "names are the attributes whose key contains _avp; identity semantics", "3 C11"),
 "C12": ("exploration", "postcondition monitor on decorate_answer (request identity, n // 1000 family rule)",
         "Typed and generic request/answer pairs x Result-Codes (0..65535 exhaustively on one pair, every defined code on every pair) x Session-Id residues x answer shapes. Plus the application layer as shipped (Bromelia.run(): worker process, Manager IPC, loopback peer) judged on the decoration of handler answers. Plus a route stage: a real Bromelia object with in-process workers dispatches requests to handlers that build their answers in five styles (typed, generic, on the request's own header, a fresh header with the request's identifiers, a reused object); the message handed to the connection worker is judged by the same oracle.",
         "multiples of 1000 and answers with both result AVPs are not judged for the E flag", "3 C12"),
 "C15": ("exploration", "uniqueness monitor with a scripted random source (os.urandom substituted); concurrent part under the deterministic scheduler",
         "Mixed creation histories with adversarial random sources; draw counting for answers and explicit-header requests; concurrent creators under controlled schedules. Sources include values over a two-byte alphabet (identifiers that occur across the boundary of two others).",
         "random sources that can never yield a fresh value are excluded", "3 C15"),
 "C16": ("exploration", "uniqueness + grammar monitor over generation histories with a virtual clock",
         "Histories over several identities of AVP creation, typed message creation, bulk origin updates and clock steps; exhaustive to length 5/6, random to length 400/2000. A quarter of the random histories run in another clock era (NTP rollover of 2036, 2040, 2106) and/or in a process that has already issued 2^16, 2^31 or 2^32 ids; bulk updates naming Session-Id and Origin-Host together are included.",
         "library clock replaced by a settable shim", "3 C16"),
 "C19": ("exploration", "reference-model monitor: independent configuration validator vs the real converter and Diameter(config=)",
         "12-key product space with valid/invalid values per key, key orders, unknown keys, application lists; YAML spec lists with/without transport.",
         "strict dotted-quad regex and type(x) is int define validity; ambiguous values are generated but not judged", "3 C19"),
 "C17": ("exploration", "total-function sweep with arithmetic oracle (n // 1000)",
         "All codes 0..65535 exhaustively plus 32-bit boundaries and random values through both the integer predicates and the answer-object predicates. Answers of twelve shapes (flags, other AVPs, Experimental-Result before/after the Result-Code, decoded from bytes, typed answer classes).",
         "ResultCodeAVP(n) carries n (C10/C01)", "3 C17"),
 "C18": ("exploration", "total-function sweep with independent TBCD codec",
         "All digit strings up to length 5 (quick) / 7 (thorough) plus random strings to 20 digits; encode, decode, round trip and the two AVP classes.",
         "independent 10-line TBCD reference", "3 C18"),
 "C20": ("exploration", "total-function sweep with ipaddress / integer-arithmetic / big-endian bit oracle",
         "Boundary words x 32 indices exhaustively on all 49 Unsigned32 classes, address literals by structure on the Address classes, instants 1900..2036 on the Time classes. The data of live Address AVPs and flag words is replaced through the public attribute and the accessors are read again.",
         "Python ipaddress and datetime arithmetic are trusted", "3 C20"),
}
NOT_YET = {}
props = [json.loads(l)["id"] for l in open(os.path.join(HERE, "properties.jsonl"))]
checks = []
for pid in props:
    if pid not in CHECKS:
        continue
    level, tech, text, note, ref = CHECKS[pid]
    checks.append({"property_id": pid, "quick_cmd": "./run.py %s --tier quick" % pid,
                   "thorough_cmd": "./run.py %s --tier thorough" % pid,
                   "evidence_file": "evidence/%s.json" % pid,
                   "replay_cmd_template": "./run.py %s --replay {path}" % pid,
                   "engine": "bvm",
                   "level_claimed": {"category": level, "text": text, "design_ref": "DESIGN.md section " + ref},
                   "level_note": note, "technique": "runtime monitoring: " + tech})
na = [{"property_id": p, "reason": NOT_YET.get(p, "check not built yet in this round (planned: see DESIGN.md section 3)")}
      for p in props if p not in CHECKS]
m = {"version": 1,
     "setup_cmd": "cd /verif && /venv/bin/python -c \"import yaml, sys; assert sys.version_info >= (3, 12)\" && PYTHONPATH=/repo:/verif PYTHONWARNINGS=ignore /venv/bin/python -m bvm.selftest",
     "hooks": {"guard": "BROMELIA_VERIF", "enable": "no source hooks: all instrumentation is applied from the harness (module-attribute substitution, wrappers, sys.monitoring); checks run /venv/bin/python with PYTHONPATH=/repo so the current working tree is what executes",
               "baseline_off_cmd": "cd /repo && /venv/bin/python -m pytest -q -p no:cacheprovider --timeout=900 --continue-on-collection-errors",
               "source_commits": [], "add_only": True},
     "engines": [{"name": "bvm", "path": "bvm/", "serves_properties": [c["property_id"] for c in checks],
                  "kind_free_text": "runtime-monitoring harness: generators, independent reference codec/dictionary, contracts, deterministic scheduler, fake transport, history checkers"}],
     "checks": checks,
     "notes": "All checks: ./run.py <id> --tier quick|thorough; exit 0 held, 1 VIOLATION, 2 INCONCLUSIVE. Genuine defects repaired in /repo are listed as fixed in known_findings.json.",
     "not_applicable": na}
json.dump(m, open(os.path.join(HERE, "MANIFEST.json"), "w"), indent=1)
print("checks:", [c["property_id"] for c in checks], "not claimed:", [n["property_id"] for n in na])
