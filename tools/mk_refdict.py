#!/usr/bin/env python3
"""One-off: draft bvm/refdict.json from the pinned tree, cross-read with docs and definitions.py.
The output was reviewed by hand (see DESIGN 2.2) and then frozen; checks never regenerate it."""
import json, re, sys, datetime
sys.path.insert(0, "/verif")
from bvm import discover as D
import bromelia.definitions as defs

docs = {}
for line in open("/repo/docs/list-of-avps.md"):
    m = re.match(r"\|(\d+)\|`([^`]+)`\|(\d+)\|(\w+)\|([^|]*)\|([^|]*)\|[^|]*\|(\w+)", line)
    if m:
        docs[m.group(7)] = {"name": m.group(2), "code": int(m.group(3)), "type": m.group(4), "spec": m.group(5).strip()}
classes = D.avp_classes()
byname = {}
for c in classes: byname.setdefault(c.__name__, c)

def build(cls):
    kind = D.kind_of(cls)
    if kind == "Enumerated": return cls(cls.values[0])
    if kind == "Integer32": return cls(bytes(4))
    if kind in ("Unsigned32", "Unsigned64"): return cls(1)
    if kind == "Grouped": return cls([build(m) for m in cls.mandatory.values()])
    if kind == "Address": return cls("10.0.0.1")
    if kind == "Time": return cls(datetime.datetime(2020, 1, 1))
    if kind == "DiameterURI": return cls("aaa://host.example.com")
    return cls(b"abcd")

def dash(name):
    return "-".join(re.findall("[A-Z0-9][^A-Z]*", name[:-3]))

avps = {}
for cls in classes:
    kind = D.kind_of(cls)
    d = docs.get(cls.__name__)
    row = {"name": d["name"] if d else dash(cls.__name__), "code": D.code_of(cls), "vendor": D.vendor_of(cls),
           "type": kind, "flags": build(cls).get_flags(), "in_docs": bool(d), "module": cls.__module__.split(".")[-1]}
    if kind == "Enumerated":
        row["values"] = [int.from_bytes(v, "big", signed=True) for v in cls.values]
    if kind == "Grouped":
        row["mandatory"] = {k: v.__name__ for k, v in cls.mandatory.items()}
        row["optionals"] = {k: v.__name__ for k, v in cls.optionals.items()}
    if cls.__name__ in avps and avps[cls.__name__] != row:
        print("DIFFERENT duplicate", cls.__name__)
    avps[cls.__name__] = row
out = {"comment": "vendored reference dictionary; see DESIGN.md 2.2", "avps": avps,
       "definitions_codes": sorted(d["id"] for d in defs.diameter_avps)}
json.dump(out, open("/verif/bvm/refdict.json", "w"), indent=0, sort_keys=True)
print(len(avps))
