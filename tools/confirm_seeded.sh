#!/bin/bash
# usage: tools/confirm_seeded.sh <Cxx> <checks to run...>
# Confirms a sub-agent's seeded change found in /tmp/wt/<Cxx>: saves the patch, runs the demonstration with and
# without the change in a fresh scratch worktree of /repo HEAD, runs the repository's pinned suite with the change,
# then runs the named checks (quick tier) against the changed tree.  Nothing is applied to /repo itself.
id=$1; shift
src=${SRC:-/tmp/wt/$id}
name=${NAME:-$id}
dst=/verif/seeded/$name
mkdir -p $dst
git -C $src diff -- bromelia docs > $dst/patch.diff
cp $src/demo_$id.py $dst/ 2>/dev/null
echo "patch lines: $(wc -l < $dst/patch.diff)"
scratch=/tmp/wt/confirm_$name
git -C /repo worktree remove --force $scratch 2>/dev/null
git -C /repo worktree add -q --detach $scratch HEAD || exit 1
cp $dst/demo_$id.py $scratch/
( cd $scratch && PYTHONPATH=$scratch timeout 300 /venv/bin/python demo_$id.py >/dev/null 2>&1 ); echo "demo without change: rc=$?"
if ! git -C $scratch apply $dst/patch.diff; then echo "PATCH DOES NOT APPLY to HEAD"; fi
( cd $scratch && PYTHONPATH=$scratch timeout 300 /venv/bin/python demo_$id.py >/dev/null 2>&1 ); echo "demo with change: rc=$?"
/verif/tools/baseline.py $scratch | head -4
cd /verif
tools/try_mutant.sh $scratch quick "$@"
git -C /repo worktree remove --force $scratch
