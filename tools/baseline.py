#!/usr/bin/env python3
"""Run the repository's pinned test command (guard off) and compare with BASELINE.json:
every test in stable_pass must pass.  Usage: baseline.py [repo_dir]"""
import json, os, subprocess, sys, tempfile, xml.etree.ElementTree as ET
repo = sys.argv[1] if len(sys.argv) > 1 else "/repo"
base = json.load(open("/root/.vp/BASELINE.json"))
want = set(base["stable_pass"])
with tempfile.TemporaryDirectory() as td:
    xmlp = os.path.join(td, "j.xml")
    env = dict(os.environ); env.pop("BROMELIA_VERIF", None)
    cmd = ["/venv/bin/python", "-m", "pytest", "-q", "-p", "no:cacheprovider", "--timeout=900",
           "--continue-on-collection-errors", "--junitxml=" + xmlp]
    # the suite binds fixed loopback ports (3868..): run it in a private network namespace when possible so that
    # several runs (or stray processes) cannot disturb each other
    if subprocess.run(["unshare", "-n", "true"], capture_output=True).returncode == 0:
        import shlex
        cmd = ["unshare", "-n", "sh", "-c", "ip link set lo up; exec " + " ".join(shlex.quote(c) for c in cmd)]
    try:
        subprocess.run(cmd, cwd=repo, env=env, stdout=subprocess.DEVNULL, stderr=subprocess.DEVNULL, timeout=1500)
    except subprocess.TimeoutExpired:
        print("baseline run timed out")
    passed = set()
    for tc in ET.parse(xmlp).getroot().iter("testcase"):
        if not any(c.tag in ("failure", "error", "skipped") for c in tc):
            passed.add(tc.get("classname") + "::" + tc.get("name"))
missing = sorted(want - passed)
print("baseline stable_pass=%d passed_now=%d missing=%d" % (len(want), len(passed), len(missing)))
for m in missing[:40]:
    print("  NOT PASSING:", m)
sys.exit(1 if missing else 0)
