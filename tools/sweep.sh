#!/bin/bash
# usage: tools/sweep.sh <tier> <seed> [ids...]   - runs checks sequentially, prints one line per check
tier=$1; seed=$2; shift 2
ids=${@:-C17 C18 C20 C19 C16 C12 C10 C01 C02 C09 C11 C15 C13 C14 C03 C04 C05 C06 C07 C08}
for id in $ids; do
  start=$(date +%s)
  out=$(VERIF_SEED=$seed ./run.py $id --tier $tier 2>&1); rc=$?
  end=$(date +%s)
  echo "== $id tier=$tier seed=$seed rc=$rc wall=$((end-start))s"
  echo "$out" | grep -E "VIOLATION|INCONCLUSIVE|mechanism=" | cut -c1-300 | head -8
  echo "$out" | tail -1 | cut -c1-250
done
