#!/bin/bash
# usage: tools/try_mutant.sh <worktree-or-repo-dir> <tier> <check ids...>
# Runs the given checks against another copy of the repository (e.g. a scratch worktree with a seeded change),
# writing evidence/witnesses to a scratch directory so that /verif/evidence is untouched.
dir=$1; tier=$2; shift 2
out=$(mktemp -d /tmp/mut-out.XXXXXX)
for id in "$@"; do
  start=$(date +%s)
  res=$(BROMELIA_REPO=$dir VERIF_OUT_DIR=$out ./run.py $id --tier $tier 2>&1); rc=$?
  echo "== $id rc=$rc wall=$(( $(date +%s) - start ))s"
  echo "$res" | grep -E "mechanism=|INCONCLUSIVE" | cut -c1-260 | head -4
done
rm -rf $out
