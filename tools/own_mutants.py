#!/usr/bin/env python3
"""My own mutation catalogue (DESIGN section 3 'Mutants'): each entry is a textual edit applied to a scratch worktree of
/repo HEAD; the named checks (quick tier) must report it.  Usage: own_mutants.py [name-substring]"""
import os, subprocess, sys, tempfile, time

M = [
 ("C01-pad-in-length", "bromelia/base.py", "        if self.vendor_id:        \n            length += AVP_HEADER_LENGTH_LONGER", "        length += (-length) % 4\n        if self.vendor_id:        \n            length += AVP_HEADER_LENGTH_LONGER", ["C01"]),
 ("C01-vendor-dropped-in-dump", "bromelia/base.py", "        if self.vendor_id:\n            stream += self.vendor_id\n", "        if self.vendor_id and self.get_vendor_id() != 13019:\n            stream += self.vendor_id\n", ["C01"]),
 ("C01-msglen-last-padding", "bromelia/base.py", "            if avp.get_padding_length():\n                header_length += avp.get_padding_length()\n            self.header.length = convert_to_3_bytes(header_length)", "            if avp.get_padding_length() and avp.get_padding_length() != 3:\n                header_length += avp.get_padding_length()\n            self.header.length = convert_to_3_bytes(header_length)", ["C01", "C11"]),
 ("C02-later-messages-dropped", "bromelia/base.py", "            index += header.get_length()\n\n        return msgs", "            index += header.get_length()\n            if len(msgs) == 3:\n                break\n\n        return msgs", ["C02"]),
 ("C02-dispatch-on-code-only", "bromelia/base.py", "            return self.avps[avp.vendor_id][avp.code]", "            return self.avps.get(avp.vendor_id, self.avps[VENDOR_ID_3GPP])[avp.code]", ["C02"]),
 # (C04-queue-reversed was dropped: since the worker splits the byte stream into single-message streams, load() returns one
 #  message per stream and reversing that list changes nothing - an equivalent mutant)
 ("C04-streams-reversed", "bromelia/setup.py", "            for stream in streams:\n                try:\n                    msgs = DiameterMessage.load(stream)", "            for stream in reversed(streams):\n                try:\n                    msgs = DiameterMessage.load(stream)", ["C04"]),
 ("C04-buffer-cleared-before-copy", "bromelia/setup.py", "            data_stream = pending_stream + transport._recv_data_stream\n            transport._recv_data_stream = b\"\"", "            data_stream = pending_stream + transport._recv_data_stream\n            transport._recv_data_stream = b\"\" if len(data_stream) != 41 else transport._recv_data_stream", ["C04"]),
 ("C04-handoff-lock-removed", "bromelia/transport.py", "            self.lock.acquire()\n            self._recv_data_stream += copy.copy(self._recv_buffer)\n            self._recv_data_available.set()\n            self.lock.release()", "            self._recv_data_stream += copy.copy(self._recv_buffer)\n            self._recv_data_available.set()", ["C04"]),
 ("C04-tail-dropped-at-boundary", "bromelia/setup.py", "        return streams, data_stream[index:]", "        return streams, (data_stream[index:] if len(data_stream) - index > 4 else b\"\")", ["C04"]),
 ("C05-send-buffer-off-by-one", "bromelia/transport.py", "                self._send_buffer = self._send_buffer[sent:]", "                self._send_buffer = self._send_buffer[sent + (1 if sent == 7 else 0):]", ["C05"], 2),
 ("C05-oversized-reput", "bromelia/setup.py", "            if MESSAGE_LENGTH > SEND_BUFFER_MAXIMUM_SIZE - len(stream):\n                self._send_messages.put(msg)\n                break", "            if MESSAGE_LENGTH > SEND_BUFFER_MAXIMUM_SIZE - len(stream):\n                break", ["C05"]),
 ("C05-no-lock-on-submit", "bromelia/setup.py", "    def put_message_into_send_queue(self, msg: Type[DiameterMessage]) -> None:\n        self.lock.acquire()\n", "    def put_message_into_send_queue(self, msg: Type[DiameterMessage]) -> None:\n        self.lock.acquire()\n        self.lock.release()\n        self.lock.acquire()\n", ["C05"]),
 ("C05-sctp-partial-send-ignored", "bromelia/transport.py", "                sent = self.sock.sctp_send(self._send_buffer)\n", "                sent = self.sock.sctp_send(self._send_buffer)\n                sent = len(self._send_buffer) if sent > 40 else sent\n", ["C05"]),
 ("C04-sctp-read-drops-short-chunks", "bromelia/transport.py", "            fromaddr, flags, data, notif = self.sock.sctp_recv(4096*64)\n", "            fromaddr, flags, data, notif = self.sock.sctp_recv(4096*64)\n            data = data if len(data) != 7 else data[:-1] + b\"\\x00\"\n", ["C04"]),
 ("C06-cea-origin-not-checked", "bromelia/process.py", "            if ProcessDiameterMessage.is_valid_result_code_avp(avp):\n                self.checklist_mandatory_avps += 1\n\n            if ProcessDiameterMessage.is_valid_origin_host_avp(avp, self.connection):\n                self.checklist_mandatory_avps += 1\n\n            elif ProcessDiameterMessage.is_valid_origin_realm_avp(avp, self.connection):\n                self.checklist_mandatory_avps += 1\n\n            elif ProcessDiameterMessage.is_valid_host_ip_address_avp", "            if ProcessDiameterMessage.is_valid_result_code_avp(avp):\n                self.checklist_mandatory_avps += 1\n\n            if avp.code == ORIGIN_HOST_AVP_CODE:\n                self.checklist_mandatory_avps += 1\n\n            elif avp.code == ORIGIN_REALM_AVP_CODE:\n                self.checklist_mandatory_avps += 1\n\n            elif ProcessDiameterMessage.is_valid_host_ip_address_avp", ["C06"]),
 ("C06-deliver-in-closing", "bromelia/statemachine.py", "            if has_recv_dpa(self.msg):\n                self.event_rcv_dpa()\n", "            if has_recv_dpa(self.msg):\n                self.event_rcv_dpa()\n            elif not has_recv_dwr(self.msg) and not has_recv_dwa(self.msg):\n                self.notify_postprocess_message(self.msg)\n", ["C06"]),
 ("C06-no-watchdog", "bromelia/setup.py", "            if (not self.transport.events) and (self.transport.tracking_events_count >= self.watchdog_timeout):", "            if (not self.transport.events) and (self.transport.tracking_events_count >= self.watchdog_timeout * 1000):", ["C06"]),
 ("C07-only-hbh-copied", "bromelia/process.py", "        answer.header.end_to_end = msg.header.end_to_end\n\n        return answer", "        return answer", ["C07", "C06"]),
 ("C07-dwa-flush-deferred", "bromelia/statemachine.py", "            dwa = self.processor.create_answer(msg=self.msg)\n            self.send_message(msg=dwa)\n            self.set_open_state()", "            dwa = self.processor.create_answer(msg=self.msg)\n            self.association.put_message_into_send_queue(dwa)\n            self.set_open_state()", ["C07"]),
 ("C08-listening-socket-left-open", "bromelia/transport.py", "            self.server_sock.close()\n            tcp_server.debug(\"Shutting down Main Socket\")", "            tcp_server.debug(\"Shutting down Main Socket\")", ["C08"]),
 ("C08-recv-worker-keeps-lock", "bromelia/setup.py", "            if self.transport is None:\n                self.lock.release()\n                break", "            if self.transport is None:\n                break", ["C08"]),
 ("C10-v-flag-missing", "bromelia/avps/etsi_3gpp/ts_129_272.py", "        DiameterAVP.set_vendor_id_bit(self, True)\n        Unsigned32Type.__init__(self, data=data, vendor_id=VENDOR_ID_3GPP)\n\n\nclass UlaFlagsAVP", "        Unsigned32Type.__init__(self, data=data, vendor_id=VENDOR_ID_3GPP)\n\n\nclass UlaFlagsAVP", ["C10", "C01"]),
 ("C10-width-check-relaxed", "bromelia/types.py", "        elif isinstance(data, bytes):\n            if len(data) != 4:\n                raise DataTypeError(\"Unsigned32Type MUST", "        elif isinstance(data, bytes):\n            if len(data) > 4:\n                raise DataTypeError(\"Unsigned32Type MUST", ["C10"]),
 ("C11-cleanup-keeps-renamed-key", "bromelia/base.py", "            if \"_avp\" in avp_key and avp_key != \"_avps\":\n                avps_keys.append(avp_key)\n\n        #: Goes over", "            if avp_key.endswith(\"_avp\") or \"_avp__\" in avp_key:\n                avps_keys.append(avp_key)\n\n        #: Goes over", ["C11"]),
 ("C12-e2e-not-copied", "bromelia/bromelia.py", "    answer.header.end_to_end = request.header.end_to_end\n", "", ["C12", "C13"]),
 ("C12-sid-without-refresh", "bromelia/bromelia.py", "        answer.session_id_avp.data = request.session_id_avp.data\n        answer.refresh()", "        answer.session_id_avp.data = request.session_id_avp.data", ["C12"]),
 ("C13-lookup-by-code-only", "bromelia/bromelia.py", "        return self.routes[application_id][command_code]", "        for _app in self.routes.values():\n            if command_code in _app:\n                return _app[command_code]", ["C13"]),
 ("C13-fallback-sent-twice", "bromelia/bromelia.py", "            answer = self.create_error_answer(request)\n            self.send_message(answer)\n", "            answer = self.create_error_answer(request)\n            self.send_message(answer)\n            if answer is None or request.header.get_command_code() == 272:\n                self.send_message(answer)\n", ["C13"]),
 ("C14-keyed-by-e2e", "bromelia/bromelia.py", "        self.pending_answers.update({p_answer.msg.header.hop_by_hop: p_answer})", "        self.pending_answers.update({p_answer.msg.header.end_to_end: p_answer})", ["C14"]),
 ("C14-event-cleared-before-wait", "bromelia/bromelia.py", "        self.recv_event.wait()\n        self.recv_event.clear()", "        self.recv_event.clear()\n        self.recv_event.wait()", ["C14"]),
 ("C15-registry-trimmed", "bromelia/base.py", "                if random_identifier not in DiameterRequest.hop_by_hop_identifiers:\n                    DiameterRequest.hop_by_hop_identifiers.append(random_identifier)", "                if random_identifier not in DiameterRequest.hop_by_hop_identifiers:\n                    del DiameterRequest.hop_by_hop_identifiers[:-64]\n                    DiameterRequest.hop_by_hop_identifiers.append(random_identifier)", ["C15"]),
 ("C17-boundary-4999", "bromelia/utils.py", "    if result_code >= 4001 and result_code < 5000:", "    if result_code >= 4001 and result_code < 4999:", ["C17", "C12"]),
 ("C20-time-seconds-only", "bromelia/types.py", "            timestamp = diff.days*24*60*60 + diff.seconds", "            timestamp = (diff.days % 49710)*24*60*60 + diff.seconds", ["C20", "C10"]),
 # --- second batch: subtler slips
 ("C07-dpa-e2e-not-copied", "bromelia/process.py", "        answer.header.hop_by_hop = msg.header.hop_by_hop\n        answer.header.end_to_end = msg.header.end_to_end\n\n        return answer", "        answer.header.hop_by_hop = msg.header.hop_by_hop\n        if msg.header.command_code != DISCONNECT_PEER_MESSAGE:\n            answer.header.end_to_end = msg.header.end_to_end\n\n        return answer", ["C07"]),
 ("C07-zero-hbh-skipped", "bromelia/process.py", "        answer.header.hop_by_hop = msg.header.hop_by_hop\n        answer.header.end_to_end = msg.header.end_to_end\n\n        return answer", "        if int.from_bytes(msg.header.hop_by_hop, 'big'):\n            answer.header.hop_by_hop = msg.header.hop_by_hop\n        answer.header.end_to_end = msg.header.end_to_end\n\n        return answer", ["C07"]),
 ("C08-peer-close-not-noticed", "bromelia/transport.py", "                tcp_connection.debug(f\"[Socket-{self.sock_id}] Peer closed \"\\\n                                     f\"connection\")\n                self._stop_threads = True", "                tcp_connection.debug(f\"[Socket-{self.sock_id}] Peer closed \"\\\n                                     f\"connection\")", ["C08", "C06"], 2),
 ("C04-app-queue-lifo", "bromelia/setup.py", "self.postprocess_recv_messages = queue.Queue()", "self.postprocess_recv_messages = queue.LifoQueue()", ["C04"]),
 ("C14-notify-before-update", "bromelia/bromelia.py", "            p_answer.update_msg(msg)\n\n            worker.remove_pending_answer(p_answer)", "            worker.remove_pending_answer(p_answer)\n            p_answer.update_msg(msg)", ["C14"]),
 ("C13-exception-clause-narrowed", "bromelia/bromelia.py", "            answer = callback_function(request)\n        except Exception as e:", "            answer = callback_function(request)\n        except (ValueError, KeyError, TypeError, AttributeError) as e:", ["C13"]),
 ("C06-dpa-sent-for-invalid-dpr-only", "bromelia/statemachine.py", "        if self.processor.is_valid_disconnect_peer(msg=self.msg):\n            dpa = self.processor.create_answer(msg=self.msg)", "        if not self.processor.is_valid_disconnect_peer(msg=self.msg):\n            dpa = self.processor.create_answer(msg=self.msg)", ["C06", "C07"]),
 ("C06-closing-ignores-peer-disconnect", "bromelia/statemachine.py", "        self.set_closing_state(set_name=True)\n\n        if self.is_set_release_signal_from_peer():\n            self.set_closed_state()\n            return\n", "        self.set_closing_state(set_name=True)\n", ["C06", "C08"]),
 ("C12-experimental-popped-instead", "bromelia/bromelia.py", "            answer.pop(\"result_code_avp\")", "            answer.pop(\"experimental_result_avp\")", ["C12"]),
 # --- third batch: state shared between node objects (visible only with two nodes in one process)
 ("C05-send-queue-shared-by-all-nodes", "bromelia/setup.py", "        self._send_messages = queue.Queue()\n", "        if getattr(DiameterAssociation, '_shared_send', None) is None:\n            DiameterAssociation._shared_send = queue.Queue()\n        self._send_messages = DiameterAssociation._shared_send\n", ["C05"]),
 ("C08-stop-flag-shared-by-all-transports", "bromelia/transport.py", "class TcpConnection():\n", "class TcpConnection():\n    _stop_event = threading.Event()\n\n    @property\n    def _stop_threads(self):\n        return self._stop_event.is_set()\n\n    @_stop_threads.setter\n    def _stop_threads(self, value):\n        if value:\n            self._stop_event.set()\n        else:\n            self._stop_event.clear()\n\n", ["C08"]),
 ("C04-recv-queue-shared-by-all-nodes", "bromelia/setup.py", "        self._recv_messages = queue.Queue()\n", "        if getattr(DiameterAssociation, '_shared_recv', None) is None:\n            DiameterAssociation._shared_recv = queue.Queue()\n        self._recv_messages = DiameterAssociation._shared_recv\n", ["C04"]),
 # batch 4 - "second use" (wave 18/19 widenings) and the three defects repaired on 2026-09-24, reverted
 ("S2-decode-cache", "bromelia/base.py", "        msgs = []\n        index = 0\n\n        while index < len(stream):\n            header_stream", "        _c = globals().setdefault(\"_LOAD_CACHE\", {})\n        if stream in _c:\n            return list(_c[stream])\n        msgs = []\n        _c[bytes(stream)] = msgs\n        index = 0\n\n        while index < len(stream):\n            header_stream", ["C02"]),
 ("S2-pop-after-notify", "bromelia/bromelia.py", "        self.pending_answers.pop(p_answer.msg.header.hop_by_hop, None)\n        p_answer.notify()", "        p_answer.notify()\n        self.pending_answers.pop(p_answer.msg.header.hop_by_hop, None)", ["C14"]),
 ("S2-send_messages-unguarded", "bromelia/setup.py", "            if isinstance(msg, DiameterMessage):\n                if is_base_request(msg):", "            if False:\n                if is_base_request(msg):", ["C07"]),
 ("S2-grouped-pop-by-equality", "bromelia/types.py", "        for index, _avp in enumerate(self._avps):\n            if _avp is item:\n                del self._avps[index]\n                break\n", "        self._avps.remove(item)\n", ["C01"]),
 ("S2-association-kept-across-restarts", "bromelia/setup.py", "        self._association = DiameterAssociation(self._connection, self._base)\n        self._peer_state_machine", "        if self._association is None:\n            self._association = DiameterAssociation(self._connection, self._base)\n        self._peer_state_machine", ["C05"]),
]

def main():
    sel = sys.argv[1] if len(sys.argv) > 1 else ""
    wt = "/tmp/wt/own"
    subprocess.run(["git", "-C", "/repo", "worktree", "remove", "--force", wt], capture_output=True)
    subprocess.check_call(["git", "-C", "/repo", "worktree", "add", "-q", "--detach", wt, "HEAD"])
    res = []
    try:
        for entry in M:
            name, path, old, new, checks = entry[:5]
            want_count = entry[5] if len(entry) > 5 else 1
            if sel not in name:
                continue
            subprocess.check_call(["git", "-C", wt, "checkout", "-q", "--", "."])
            p = os.path.join(wt, path)
            s = open(p).read()
            if s.count(old) != want_count:
                print("%-34s PATTERN matches %d times - skipped" % (name, s.count(old)))
                continue
            open(p, "w").write(s.replace(old, new, 1))
            imp = subprocess.run(["/venv/bin/python", "-W", "ignore", "-c", "import bromelia, bromelia.avps"], cwd=wt, env=dict(os.environ, PYTHONPATH=wt), capture_output=True)
            if imp.returncode:
                print("%-34s does not import: %s" % (name, imp.stderr.decode()[-200:]))
                continue
            out = []
            for c in checks:
                t0 = time.time()
                od = tempfile.mkdtemp(prefix="own-mut-")
                r = subprocess.run(["./run.py", c, "--tier", "quick"], cwd="/verif", env=dict(os.environ, BROMELIA_REPO=wt, VERIF_OUT_DIR=od), capture_output=True, text=True)
                mech = [l.strip().split(":")[0].replace("mechanism=", "") for l in r.stdout.splitlines() if "mechanism=" in l][:2]
                out.append("%s rc=%d %s (%.0fs)" % (c, r.returncode, ",".join(mech), time.time() - t0))
                subprocess.run(["rm", "-rf", od])
            print("%-34s %s" % (name, " | ".join(out)), flush=True)
    finally:
        subprocess.run(["git", "-C", "/repo", "worktree", "remove", "--force", wt], capture_output=True)

main()
