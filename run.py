#!/usr/bin/env python3
"""Single entry point:  run.py <Cxx> [--tier quick|thorough] [--replay witness.json]

Exit 0: property held on everything explored (KNOWN-FINDING lines possible);
exit 1: VIOLATION property=<id> replay=<path>;  exit 2: INCONCLUSIVE.
"""
import argparse
import glob
import importlib
import json
import os
import subprocess
import sys
import time

HERE = os.path.dirname(os.path.abspath(__file__))
sys.path.insert(0, HERE)


def ensure_deps():
    """Nothing to install: the monitors are plain Python (wrappers, sys.monitoring, the scheduler); the repository's own
    interpreter /venv/bin/python with PYTHONPATH=/repo is all they need."""
    return


def main():
    ap = argparse.ArgumentParser()
    ap.add_argument("prop")
    ap.add_argument("--tier", default=os.environ.get("VERIF_TIER", "quick"))
    ap.add_argument("--replay")
    a = ap.parse_args()
    if os.environ.get("PYTHONHASHSEED") != "0" or os.environ.get("_BVM_REEXEC") != "1":
        from bvm import harness
        env = harness.child_env()
        env["_BVM_REEXEC"] = "1"
        os.execve(harness.PY, [harness.PY, os.path.abspath(__file__)] + sys.argv[1:], env)
    ensure_deps()
    seed = int(os.environ.get("VERIF_SEED", "0"))
    mods = glob.glob(os.path.join(HERE, "checks", a.prop.lower() + "_*.py"))
    if len(mods) != 1:
        print("no unique check module for", a.prop)
        return 2
    mod = importlib.import_module("checks." + os.path.basename(mods[0])[:-3])
    if a.replay:
        with open(a.replay) as f:
            w = json.load(f)
        return mod.replay(w)
    return mod.main(a.tier, seed)


if __name__ == "__main__":
    sys.exit(main())
