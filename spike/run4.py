import sys, os, random
sys.path.insert(0, "/repo"); sys.path.insert(0, "/tmp/spike")
import warnings; warnings.simplefilter("ignore")
import vsched, vnet
from run1 import install, enable_line_preemption, disable_line_preemption
from run2 import open_client
from bromelia.base import DiameterMessage, DiameterRequest
from bromelia.messages import DWR
import bromelia.base as Bs

def c06(seed):
    sched = vsched.Sched(seed=seed, p_switch=0.2, max_steps=600000)
    net = vnet.Net(sched); install(sched, net); enable_line_preemption(sched)
    try:
        c, peer = open_client(sched, net)
        del peer.rx[:]
        dwr = DWR(origin_host="server.network", origin_realm="network")
        sched.preempt_enabled = False
        peer.peer.rx += dwr.dump() + dwr.dump() + dwr.dump()
        sched.preempt_enabled = True
        sched.sleep(0.0003)
        c.close()
        sched.sleep(2.0)
        out = DiameterMessage.load(bytes(peer.rx))
        return [(m.header.get_command_code(), m.header.is_request()) for m in out], c.get_current_state()
    finally:
        disable_line_preemption()

def c15(seed):
    sched = vsched.Sched(seed=seed, p_switch=0.5, max_steps=600000)
    net = vnet.Net(sched); install(sched, net)
    # scripted urandom: every value repeated 4 times
    ctr = [0]
    class OS:
        @staticmethod
        def urandom(n):
            ctr[0] += 1; return (ctr[0] // 4).to_bytes(n, "big")
    Bs.os = OS
    DiameterRequest.hop_by_hop_identifiers.clear(); DiameterRequest.end_to_end_identifiers.clear()
    mon = sys.monitoring; TOOL = 3; mon.use_tool_id(TOOL, "v")
    def on_line(code, line): sched.preempt_point()
    mon.register_callback(TOOL, mon.events.LINE, on_line)
    for f in (DiameterRequest._DiameterRequest__set_hop_by_hop_identifier, DiameterRequest._DiameterRequest__set_end_to_end_identifier):
        mon.set_local_events(TOOL, f.__code__, mon.events.LINE)
    try:
        made = []
        def creator():
            for _ in range(5): made.append(DiameterRequest())
        ts = [vsched.Task(sched, f"c{i}", creator) for i in range(3)]
        for t in ts: t.start()
        sched.block_until(lambda: all(t.done for t in ts), 10)
        h = [m.header.hop_by_hop for m in made]; e = [m.header.end_to_end for m in made]
        return len(h), len(set(h)), len(set(e))
    finally:
        for f in (DiameterRequest._DiameterRequest__set_hop_by_hop_identifier, DiameterRequest._DiameterRequest__set_end_to_end_identifier):
            mon.set_local_events(TOOL, f.__code__, 0)
        mon.free_tool_id(TOOL)

if __name__ == "__main__":
    for seed in range(6):
        try: print("C06", seed, c06(seed))
        except BaseException as e: print("C06", seed, "EXC", type(e).__name__, e)
    for seed in range(6):
        try: print("C15", seed, c15(seed))
        except BaseException as e: print("C15", seed, "EXC", type(e).__name__, e)
    os._exit(0)
