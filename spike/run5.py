import sys, os
sys.path.insert(0, "/repo"); sys.path.insert(0, "/tmp/spike")
import warnings; warnings.simplefilter("ignore")
import vsched, vnet, dbg
from run1 import install, enable_line_preemption, disable_line_preemption
from bromelia.setup import Diameter
from bromelia.base import DiameterMessage
from bromelia.messages import CER, DPR, DWR

scfg = {"MODE":"SERVER","APPLICATIONS":[],"LOCAL_NODE_HOSTNAME":"server.network","LOCAL_NODE_REALM":"network","LOCAL_NODE_IP_ADDRESS":"127.0.0.1","LOCAL_NODE_PORT":3868,"PEER_NODE_HOSTNAME":"client.network","PEER_NODE_REALM":"network","PEER_NODE_IP_ADDRESS":"127.0.0.1","PEER_NODE_PORT":None,"WATCHDOG_TIMEOUT":30}

def server(seed, how):
    sched = vsched.Sched(seed=seed, p_switch=0.2, max_steps=600000)
    net = vnet.Net(sched); install(sched, net); enable_line_preemption(sched)
    try:
        s = Diameter(config=dict(scfg))
        t = vsched.Task(sched, "srv-start", s.start); t.start()
        sched.block_until(lambda: ("127.0.0.1", 3868) in net.listeners, 5)
        cli = vnet.FakeSocket(net); cli.connect_ex(("127.0.0.1", 3868))
        cer = CER(origin_host="client.network", origin_realm="network", host_ip_address="127.0.0.1")
        cli.peer.rx += cer.dump()
        ok = sched.block_until(lambda: s.is_open(), 10)
        st = s.get_current_state()
        cea = DiameterMessage.load(bytes(cli.rx))[0]; del cli.rx[:]
        if how == "dpr":
            dpr = DPR(origin_host="client.network", origin_realm="network")
            cli.peer.rx += dpr.dump()
        elif how == "disc":
            cli.close()
        elif how == "local":
            s.close()
            sched.block_until(lambda: len(cli.rx) >= 20, 10)
            from bromelia.messages import DPA
            d = DiameterMessage.load(bytes(cli.rx))[0]; del cli.rx[:]
            dpa = DPA(origin_host="client.network", origin_realm="network"); dpa.header.hop_by_hop = d.header.hop_by_hop; dpa.header.end_to_end = d.header.end_to_end
            cli.peer.rx += dpa.dump()
        try:
            done = sched.block_until(lambda: s.get_current_state() == "Closed" and all(x.done for x in sched.tasks[1:]), 60)
        except BaseException as e:
            done = repr(e)
        return st, (cea.header.get_command_code(), cea.header.hop_by_hop == cer.header.hop_by_hop), done, s.get_current_state(), [(x.name, x.done) for x in sched.tasks[1:]], [(k.fd, k.closed) for k in net.socks], [x[0]+":"+type(x[1]).__name__ for x in sched.thread_exceptions], round(sched.now,2)
    finally:
        disable_line_preemption()

if __name__ == "__main__":
    for how in ("dpr", "disc", "local"):
        for seed in range(3):
            try: print(how, seed, server(seed, how))
            except BaseException as e:
                print(how, seed, "EXC", type(e).__name__, e)
    os._exit(0)
