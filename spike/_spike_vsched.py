"""Spike: deterministic cooperative scheduler over real threads (baton passing)."""
import threading, random, sys, collections, traceback

class DeadlockError(BaseException): pass
class StepBudget(BaseException): pass

_real_Thread = threading.Thread
_real_Sem = threading.Semaphore

class Task:
    def __init__(self, sched, name, target=None, args=(), kwargs=None, daemon=None):
        self.sched = sched; self.name = name; self.target = target; self.args = args; self.kwargs = kwargs or {}
        self.gate = _real_Sem(0)
        self.pred = None; self.deadline = None
        self.done = False; self.started = False
        self.real = None; self.exc = None
        self.tid = len(sched.tasks)
        self.daemon = daemon
    # threading.Thread API
    def start(self):
        s = self.sched
        self.started = True
        s.tasks.append(self)
        self.real = _real_Thread(target=self._boot, name=self.name, daemon=True)
        self.real.start()
        s.yield_point("thread.start")
    def _boot(self):
        self.gate.acquire()
        self.sched.local.task = self
        try:
            self.target(*self.args, **self.kwargs)
        except BaseException as e:
            self.exc = e
            self.sched.on_thread_exception(self, e)
        finally:
            self.done = True
            self.sched.switch(dying=True)
    def join(self, timeout=None):
        self.sched.block_until(lambda: self.done, timeout, "join")
    def is_alive(self):
        return self.started and not self.done
    @property
    def ident(self): return self.tid

class Sched:
    def __init__(self, seed=0, p_switch=0.3, max_steps=2_000_000):
        self.rng = random.Random(seed)
        self.tasks = []
        self.now = 0.0
        self.local = threading.local()
        self.steps = 0
        self.switches = 0
        self.max_steps = max_steps
        self.p_switch = p_switch
        self.trace = collections.deque(maxlen=200)
        self.thread_exceptions = []
        self.main = Task(self, "driver")
        self.main.started = True
        self.tasks.append(self.main)
        self.local.task = self.main
        self.current = self.main
        self.preempt_enabled = True
    def cur(self):
        return getattr(self.local, "task", None)
    def on_thread_exception(self, task, e):
        self.thread_exceptions.append((task.name, e, traceback.format_exc()))
    def eligible(self, t):
        if t.done or not t.started: return False
        if t.pred is None and t.deadline is None: return True
        if t.pred is not None:
            old = self.preempt_enabled; self.preempt_enabled = False
            try:
                if t.pred(): return True
            finally:
                self.preempt_enabled = old
        if t.deadline is not None and self.now >= t.deadline: return True
        return False
    def pick(self, me, dying):
        while True:
            el = [t for t in self.tasks if self.eligible(t)]
            if el:
                return self.rng.choice(el)
            dl = [t.deadline for t in self.tasks if t.started and not t.done and t.deadline is not None]
            if not dl:
                raise DeadlockError("no runnable task: " + ", ".join(f"{t.name}:{'done' if t.done else 'blocked'}" for t in self.tasks))
            self.now = min(dl)
    def switch(self, dying=False):
        me = self.cur()
        self.steps += 1
        self.now += 2e-6
        try:
            if self.steps > self.max_steps:
                self.max_steps += 10**9
                raise StepBudget("step budget")
            nxt = self.pick(me, dying)
        except (DeadlockError, StepBudget) as e:
            if me is self.main: raise
            # hand the error to the driver
            self.deadlock = e
            self.main.pred = None; self.main.deadline = None
            self.main.wake_exc = e
            nxt = self.main
        if nxt is me and not dying:
            return
        self.switches += 1
        self.current = nxt
        nxt.gate.release()
        if not dying:
            me.gate.acquire()
            exc = getattr(me, "wake_exc", None)
            if exc is not None:
                me.wake_exc = None
                raise exc
    def yield_point(self, why=""):
        me = self.cur()
        if me is None or not self.preempt_enabled: return
        self.switch()
    def preempt_point(self):
        me = self.cur()
        if me is None or not self.preempt_enabled: return
        if self.rng.random() < self.p_switch:
            self.switch()
    def block_until(self, pred, timeout=None, why=""):
        me = self.cur()
        me.pred = pred
        me.deadline = None if timeout is None else self.now + timeout
        try:
            self.switch()
            ok = pred() if pred is not None else False
        finally:
            me.pred = None; me.deadline = None
        return ok
    def sleep(self, dt):
        me = self.cur()
        me.pred = None if dt <= 0 else (lambda: False)
        me.deadline = self.now + max(dt, 0)
        try:
            self.switch()
        finally:
            me.pred = None; me.deadline = None

class VLock:
    def __init__(self, sched): self.s = sched; self.owner = None
    def acquire(self, blocking=True, timeout=-1):
        s = self.s; s.yield_point("lock.acquire")
        if not blocking:
            if self.owner is None: self.owner = s.cur(); return True
            return False
        ok = s.block_until(lambda: self.owner is None, None if timeout in (-1, None) else timeout, "lock")
        if ok: self.owner = s.cur()
        return ok
    def release(self):
        if self.owner is None: raise RuntimeError("release unlocked lock")
        self.owner = None
        self.s.yield_point("lock.release")
    def locked(self): return self.owner is not None
    __enter__ = lambda self: self.acquire()
    def __exit__(self, *a): self.release()

class VEvent:
    def __init__(self, sched): self.s = sched; self.flag = False
    def is_set(self): return self.flag
    def set(self): self.flag = True; self.s.yield_point("event.set")
    def clear(self): self.flag = False; self.s.yield_point("event.clear")
    def wait(self, timeout=None):
        self.s.yield_point("event.wait")
        if self.flag: return True
        return self.s.block_until(lambda: self.flag, timeout, "event")

class VQueue:
    def __init__(self, sched, maxsize=0): self.s = sched; self.q = collections.deque()
    def put(self, item, block=True, timeout=None): self.s.yield_point("q.put"); self.q.append(item)
    def get(self, block=True, timeout=None):
        self.s.yield_point("q.get")
        if not self.q:
            import queue as _q
            if not block: raise _q.Empty
            if not self.s.block_until(lambda: bool(self.q), timeout, "queue"): raise _q.Empty
        return self.q.popleft()
    def empty(self): return not self.q
    def qsize(self): return len(self.q)

class VThreading:
    """stand-in for the `threading` module inside SUT modules"""
    def __init__(self, sched):
        self.s = sched
        self.BrokenBarrierError = threading.BrokenBarrierError
    def Thread(self, group=None, target=None, name=None, args=(), kwargs=None, daemon=None):
        return Task(self.s, name or "t", target, args, kwargs, daemon)
    def Lock(self): return VLock(self.s)
    def Event(self): return VEvent(self.s)
    def current_thread(self): return self.s.cur()

class VQueueMod:
    def __init__(self, sched):
        import queue as _q
        self.s = sched; self.Empty = _q.Empty; self.Full = _q.Full
    def Queue(self, maxsize=0): return VQueue(self.s)

class VTime:
    def __init__(self, sched): self.s = sched
    def sleep(self, dt): self.s.sleep(dt)
    def time(self): return 1_700_000_000 + self.s.now
    def monotonic(self): return self.s.now
