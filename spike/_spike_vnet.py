"""Spike: in-memory sockets + selector built on the stdlib's pure-Python selector base."""
import selectors, errno, socket as _socket

EVENT_READ, EVENT_WRITE = selectors.EVENT_READ, selectors.EVENT_WRITE

class Net:
    def __init__(self, sched):
        self.s = sched; self.listeners = {}; self.fd = 1000; self.socks = []
        self.log = []
        self.write_len = lambda sock, n: n     # fault script: bytes accepted per send()
        self.read_len = lambda sock, avail, n: min(avail, n)
    def next_fd(self):
        self.fd += 1; return self.fd

class FakeSocket:
    def __init__(self, net, *a):
        self.net = net; self.fd = net.next_fd(); self.rx = bytearray(); self.peer = None
        self.closed = False; self.listening = False; self.backlog = []; self.state = "new"
        self.peer_closed = False; self.sent_total = b""; self.addr = None; self.refused_reported = False
        net.socks.append(self)
    def fileno(self): return -1 if self.closed else self.fd
    def setblocking(self, f): pass
    def setsockopt(self, *a): pass
    def bind(self, addr): self.addr = addr
    def listen(self, *a): self.listening = True; self.net.listeners[self.addr] = self
    def accept(self):
        self.net.s.yield_point("accept")
        if not self.backlog: raise BlockingIOError
        c = self.backlog.pop(0); return c, ("peer", 0)
    def connect_ex(self, addr):
        self.net.s.yield_point("connect")
        l = self.net.listeners.get(addr)
        if l is None or l.closed:
            self.state = "refused"; return errno.EINPROGRESS
        srv = FakeSocket(self.net); srv.peer = self; self.peer = srv; srv.state = self.state = "conn"
        l.backlog.append(srv); return errno.EINPROGRESS
    def send(self, data):
        self.net.s.yield_point("send")
        if self.closed: raise OSError(errno.EBADF, "closed")
        if self.state == "refused":
            if not self.refused_reported:
                self.refused_reported = True; raise ConnectionRefusedError(errno.ECONNREFUSED, "refused")
            raise BrokenPipeError(errno.EPIPE, "pipe")
        if self.state != "conn": raise OSError(errno.ENOTCONN, "notconn")
        if self.peer.closed: raise BrokenPipeError(errno.EPIPE, "pipe")
        if not data: return 0
        n = self.net.write_len(self, len(data))
        if n == 0: raise BlockingIOError
        self.peer.rx += data[:n]; self.sent_total += bytes(data[:n])
        self.net.log.append(("send", self.fd, bytes(data[:n])))
        return n
    def recv(self, n):
        self.net.s.yield_point("recv")
        if self.closed: raise OSError(errno.EBADF, "closed")
        if self.rx:
            k = self.net.read_len(self, len(self.rx), n)
            out = bytes(self.rx[:k]); del self.rx[:k]
            self.net.log.append(("recv", self.fd, out)); return out
        if self.peer is not None and self.peer.closed: return b""
        if self.state == "refused": raise ConnectionRefusedError(errno.ECONNREFUSED, "refused")
        raise BlockingIOError
    def close(self):
        self.closed = True
        if self.listening: self.net.listeners.pop(self.addr, None)
    # readiness
    def readable(self):
        if self.listening: return bool(self.backlog)
        return bool(self.rx) or (self.peer is not None and self.peer.closed) or self.state == "refused"
    def writable(self):
        return self.state in ("conn", "refused") and not self.closed

class VSelector(selectors._BaseSelectorImpl):
    net = None
    def __init__(self):
        super().__init__()
    def select(self, timeout=None):
        s = self.net.s
        s.yield_point("select")
        def ready():
            out = []
            for key in list(self._fd_to_key.values()):
                m = 0
                so = key.fileobj
                if key.events & EVENT_READ and so.readable(): m |= EVENT_READ
                if key.events & EVENT_WRITE and so.writable(): m |= EVENT_WRITE
                if m: out.append((key, m))
            return out
        r = ready()
        if r: return r
        if timeout is not None and timeout <= 0: return []
        s.block_until(lambda: bool(ready()), timeout, "select")
        return ready()

class VSelectorsMod:
    EVENT_READ = EVENT_READ; EVENT_WRITE = EVENT_WRITE
    def __init__(self, net):
        self.net = net
    def DefaultSelector(self):
        v = VSelector(); v.net = self.net; return v

class VSocketMod:
    AF_INET = _socket.AF_INET; SOCK_STREAM = _socket.SOCK_STREAM; SOL_SOCKET = _socket.SOL_SOCKET; SO_REUSEADDR = _socket.SO_REUSEADDR
    def __init__(self, net): self.net = net
    def socket(self, *a): return FakeSocket(self.net, *a)
    def getfqdn(self): return "vhost.local"
    def gethostbyname(self, n): return "127.0.0.1"
