import sys, os, time as rtime, random
sys.path.insert(0, "/repo"); sys.path.insert(0, "/tmp/spike")
import warnings; warnings.simplefilter("ignore")
import vsched, vnet, dbg
from run1 import install, enable_line_preemption, disable_line_preemption, cfg
from bromelia.setup import Diameter
from bromelia.base import DiameterMessage, DiameterRequest, DiameterAnswer
from bromelia.messages import CEA, DPA
from bromelia.avps import *

def open_client(sched, net):
    lsock = vnet.FakeSocket(net); lsock.bind(("127.0.0.1", 3868)); lsock.listen()
    c = Diameter(config=dict(cfg)); c.start()
    sched.block_until(lambda: bool(lsock.backlog), 10)
    peer, _ = lsock.accept()
    sched.block_until(lambda: len(peer.rx) >= 20, 10)
    data = bytes(peer.rx); del peer.rx[:]
    cer = DiameterMessage.load(data)[0]
    cea = CEA(origin_host="server.network", origin_realm="network", host_ip_address="127.0.0.1")
    cea.header.hop_by_hop = cer.header.hop_by_hop; cea.header.end_to_end = cer.header.end_to_end
    peer.peer.rx += cea.dump()
    assert sched.block_until(lambda: c.is_open(), 10)
    return c, peer

def mk_msgs(n, size):
    out = []
    for i in range(n):
        m = DiameterAnswer(command_code=316, application_id=16777251)
        m.header.hop_by_hop = i + 1; m.header.end_to_end = 1000 + i
        m.append(SessionIdAVP(b"sess;%d" % i)); m.append(UserNameAVP("u" * size))
        out.append(m)
    return out

def scenario_c04(seed, frag):
    sched = vsched.Sched(seed=seed, p_switch=0.2, max_steps=400000)
    net = vnet.Net(sched); install(sched, net); enable_line_preemption(sched)
    try:
        c, peer = open_client(sched, net)
        msgs = mk_msgs(4, 50)
        stream = b"".join(m.dump() for m in msgs)
        got = []
        def consumer():
            for _ in msgs:
                got.append(c.get_message())
        t = vsched.Task(sched, "consumer", consumer); t.start()
        rng = random.Random(seed)
        i = 0
        while i < len(stream):
            k = rng.randint(1, frag)
            peer.peer.rx += stream[i:i+k]; i += k
            sched.sleep(rng.choice([0, 0.00005, 0.001]))
        try:
            ok = sched.block_until(lambda: t.done, 20)
        except BaseException as e:
            ok = repr(e)
        hb = [m.header.get_hop_by_hop() for m in got]
        return ok, hb, [x[0] for x in sched.thread_exceptions], [(t.name, t.done) for t in sched.tasks]
    finally:
        disable_line_preemption()

for frag in ((10**6, 200, 7) if __name__=='__main__' else ()):
    for seed in range(4):
        try:
            print(frag, seed, scenario_c04(seed, frag))
        except BaseException as e:
            print(frag, seed, "EXC", type(e).__name__, e)
if __name__=='__main__': os._exit(0)
