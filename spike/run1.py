import sys, time as rtime
sys.path.insert(0, "/repo"); sys.path.insert(0, "/tmp/spike")
import warnings; warnings.simplefilter("ignore")
import vsched, vnet
import bromelia, bromelia.transport as T, bromelia.setup as S, bromelia.statemachine as SM
from bromelia.setup import Diameter
from bromelia.base import DiameterMessage
from bromelia.messages import CEA, CER, DPA, DWR
import os

def install(sched, net):
    vt = vsched.VThreading(sched)
    T.threading = vt; S.threading = vt; SM.threading = vt
    S.queue = vsched.VQueueMod(sched)
    S.time = vsched.VTime(sched); SM.time = vsched.VTime(sched)
    T.selectors = vnet.VSelectorsMod(net); T.socket = vnet.VSocketMod(net)

TARGET_FILES = {T.__file__, S.__file__, SM.__file__}
def enable_line_preemption(sched):
    mon = sys.monitoring; TOOL = 3
    mon.use_tool_id(TOOL, "vsched")
    def on_line(code, line):
        if code.co_filename in TARGET_FILES:
            sched.lines += 1
            sched.preempt_point()
            return None
        return mon.DISABLE
    sched.lines = 0
    mon.register_callback(TOOL, mon.events.LINE, on_line)
    mon.set_events(TOOL, mon.events.LINE)
def disable_line_preemption():
    mon = sys.monitoring; mon.set_events(3, 0); mon.free_tool_id(3)

cfg = {"MODE":"CLIENT","APPLICATIONS":[],"LOCAL_NODE_HOSTNAME":"client.network","LOCAL_NODE_REALM":"network","LOCAL_NODE_IP_ADDRESS":"127.0.0.1","LOCAL_NODE_PORT":None,"PEER_NODE_HOSTNAME":"server.network","PEER_NODE_REALM":"network","PEER_NODE_IP_ADDRESS":"127.0.0.1","PEER_NODE_PORT":3868,"WATCHDOG_TIMEOUT":30}

def scenario(seed, lines=True):
    sched = vsched.Sched(seed=seed, p_switch=0.2, max_steps=int(os.environ.get('MAXS','200000'))); scenario.sched=sched
    net = vnet.Net(sched)
    install(sched, net)
    if lines: enable_line_preemption(sched)
    try:
        # scripted peer listens
        lsock = vnet.FakeSocket(net); lsock.bind(("127.0.0.1", 3868)); lsock.listen()
        c = Diameter(config=dict(cfg))
        c.start()
        # wait for connection
        sched.block_until(lambda: bool(lsock.backlog), 10, "peer-accept")
        peer, _ = lsock.accept()
        # read CER
        sched.block_until(lambda: len(peer.rx) >= 20, 10)
        data = bytes(peer.rx); del peer.rx[:]
        cer = DiameterMessage.load(data)[0]
        cea = CEA(origin_host="server.network", origin_realm="network", host_ip_address="127.0.0.1")
        cea.header.hop_by_hop = cer.header.hop_by_hop; cea.header.end_to_end = cer.header.end_to_end
        b = cea.dump()
        c_sock = peer.peer
        c_sock.rx += b
        ok = sched.block_until(lambda: c.is_open(), 10)
        st1 = c.get_current_state()
        # local close
        c.close()
        sched.block_until(lambda: len(peer.rx) >= 20, 10)
        dpr = DiameterMessage.load(bytes(peer.rx))[0]; del peer.rx[:]
        dpa = DPA(origin_host="server.network", origin_realm="network")
        dpa.header.hop_by_hop = dpr.header.hop_by_hop; dpa.header.end_to_end = dpr.header.end_to_end
        c_sock.rx += dpa.dump()
        sched.block_until(lambda: c.get_current_state() == "Closed" and all(t.done for t in sched.tasks[1:]), 30)
        return st1, c.get_current_state(), [(t.name, t.done) for t in sched.tasks], sched.steps, sched.switches, getattr(sched, "lines", 0), round(sched.now, 3), sched.thread_exceptions
    finally:
        if lines: disable_line_preemption()

if __name__ != '__main__':
    raise_skip = True
t0 = rtime.time()
for seed in (range(int(sys.argv[1]) if len(sys.argv) > 1 else 5) if __name__=='__main__' else []):
    try:
        r = scenario(seed, lines=(os.environ.get("LINES", "1") == "1"))
        print(seed, r)
    except BaseException as e:
        print(seed, "EXC", type(e).__name__, e, 'steps', scenario.sched.steps, 'now', scenario.sched.now)
        import dbg; dbg.dump(scenario.sched)
if __name__=="__main__":
    print("wall", rtime.time() - t0)
    os._exit(0)
