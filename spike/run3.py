import sys, os, random
sys.path.insert(0, "/repo"); sys.path.insert(0, "/tmp/spike")
import warnings; warnings.simplefilter("ignore")
import vsched, vnet, dbg
from run1 import install, enable_line_preemption, disable_line_preemption, cfg
from run2 import open_client
from bromelia.base import DiameterMessage, DiameterRequest, DiameterAnswer
from bromelia.avps import *

def mk(i, size=40):
    m = DiameterRequest(command_code=316, application_id=16777251)
    m.header.hop_by_hop = i + 1; m.header.end_to_end = 1000 + i
    m.append(SessionIdAVP(b"sess;%d" % i)); m.append(UserNameAVP("u" * size))
    return m

def scenario_c05(seed, partial, inbound):
    sched = vsched.Sched(seed=seed, p_switch=0.2, max_steps=600000)
    net = vnet.Net(sched); install(sched, net); enable_line_preemption(sched)
    try:
        c, peer = open_client(sched, net)
        rng = random.Random(seed)
        if partial:
            net.write_len = lambda sock, n: min(n, rng.randint(1, partial))
        msgs = [mk(i) for i in range(6)]
        def sender(part):
            for m in part: c.send_message(m)
        ts = [vsched.Task(sched, "s1", sender, (msgs[:3],)), vsched.Task(sched, "s2", sender, (msgs[3:],))]
        for t in ts: t.start()
        if inbound:
            a = DiameterAnswer(command_code=316, application_id=16777251); a.append(UserNameAVP("x"))
            for _ in range(3):
                peer.peer.rx += a.dump(); sched.sleep(0.0002)
        try:
            sched.block_until(lambda: all(t.done for t in ts), 20)
            sched.sleep(3.0)
        except BaseException as e:
            print("  exc", repr(e))
        out = bytes(peer.rx)
        want = sorted(m.dump() for m in msgs)
        # parse out
        try:
            got = [m.header.get_hop_by_hop() for m in DiameterMessage.load(out)]
        except BaseException as e:
            got = "unparseable:" + type(e).__name__
        return len(out), sum(len(w) for w in want), got, [x[0] for x in sched.thread_exceptions]
    finally:
        disable_line_preemption()

for partial, inbound in ((0, False), (0, True), (50, False), (50, True)):
    for seed in range(5):
        try:
            print(partial, inbound, seed, scenario_c05(seed, partial, inbound))
        except BaseException as e:
            print(partial, inbound, seed, "EXC", type(e).__name__, e)
os._exit(0)
