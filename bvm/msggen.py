"""Argument generator for the typed command classes (shared by C09, C12, C13)."""
import inspect

from . import refcodec as R
from . import refdict as RD


class Plan:
    def __init__(self, lib, cls):
        self.lib = lib
        self.cls = cls
        self.kwargs = {}
        self.expected = []      # dicts: arg, cls (dictionary class name or None), lavp (or None), source
        self.describe_args = {}

    def build(self):
        return self.cls(**self.kwargs)

    def describe(self):
        return {"lib": self.lib, "class": self.cls.__name__, "args": self.describe_args}



def _tab(cls, which):
    """the class's argument table, or an empty one when the class lacks it (what such a class then does is judged where
    messages are built, not here)"""
    t = getattr(cls, which, None)
    return t if isinstance(t, dict) else {}

def params_of(cls):
    sig = inspect.signature(cls.__init__)
    return [p for p in sig.parameters.values() if p.name != "self" and p.kind != p.VAR_KEYWORD]


def table_class(cls, name):
    return _tab(cls, "mandatory").get(name) or _tab(cls, "optionals").get(name)


def required_args(cls):
    return [p.name for p in params_of(cls) if p.name in _tab(cls, "mandatory") and p.default is None]


def make_plan(g, lib, cls, subset="random", omit=None, extras=0, session_id=None):
    """subset: 'none' | 'all' | 'random' | a set of optional argument names to supply."""
    r = g.rng
    plan = Plan(lib, cls)
    twins = []          # AVPs already in the message of which an extra keyword AVP may be an equal twin
    for p in params_of(cls):
        name = p.name
        tcls = table_class(cls, name)
        is_mand = name in _tab(cls, "mandatory")
        if name == omit:
            continue
        if is_mand and p.default is None:
            supply = True
        elif is_mand:
            supply = r.random() < 0.5
        elif isinstance(subset, (set, frozenset, list, tuple)):
            supply = name in subset
        elif subset == "all":
            supply = True
        elif subset == "none":
            supply = False
        else:
            supply = r.random() < 0.3
        if name == "session_id" and session_id is not None:
            supply = True
        if supply:
            if tcls is not None:
                spec = g.avp(g.by_name[tcls.__name__], maxdepth=4)
                if name == "session_id" and session_id is not None:
                    spec.arg = session_id
                    spec.lavp = R.LAvp(263, 0x40, None, session_id)
                value = spec.arg if spec.members is None else [m.build() for m in spec.members]
                plan.kwargs[name] = value
                plan.describe_args[name] = spec.describe()
                plan.expected.append({"arg": name, "cls": tcls.__name__, "lavp": spec.lavp, "source": "supplied"})
                if spec.members is None:
                    twins.append(spec)
            else:
                spec = g.generic()
                plan.kwargs[name] = spec.build()
                plan.describe_args[name] = spec.describe()
                plan.expected.append({"arg": name, "cls": None, "lavp": spec.lavp, "source": "supplied-untabled"})
        elif p.default is not None:
            plan.expected.append({"arg": name, "cls": tcls.__name__ if tcls is not None else None, "lavp": None,
                                  "source": "default"})
    for i in range(extras):
        if twins and r.random() < 0.3:
            # an extra AVP that equals, byte for byte, one the message already holds (a second Route-Record of the same hop,
            # a repeated Proxy-Info): it is one more AVP all the same
            spec = r.choice(twins)
        else:
            spec = g.generic() if r.random() < 0.6 else g.avp(r.choice(g.classes), maxdepth=3)
            if spec.members is None:
                twins.append(spec)
        nm = "extra_%d_%d" % (i, r.randrange(1000))
        plan.kwargs[nm] = spec.build()
        plan.describe_args[nm] = spec.describe()
        plan.expected.append({"arg": nm, "cls": spec.cls.__name__ if spec.cls else None, "lavp": spec.lavp,
                              "source": "extra-kwarg"})
    return plan


def expected_header(lib, cls, plan_kwargs):
    """(command code, application id or None if unknowable, is_request) from the vendored command table,
    with the library's documented rule that the base ASR/RAR and SWm DER/DEA take the header Application-ID
    from their auth_application_id argument."""
    t = RD.command_table()[(lib, cls.__name__)]
    app = t["app_id"]
    dyn = (lib == "ietf_rfc6733" and cls.__name__ in ("AbortSessionRequest", "ReAuthRequest")) or \
          (lib == "etsi_3gpp_swm" and cls.__name__ in ("DiameterEapRequest", "DiameterEapAnswer"))
    if dyn:
        v = plan_kwargs.get("auth_application_id")
        if v is None:
            p = [p for p in params_of(cls) if p.name == "auth_application_id"][0]
            v = p.default
        if isinstance(v, bytes):
            app = int.from_bytes(v, "big")
        elif isinstance(v, int):
            app = v
        else:
            app = None
    return t["code"], app, t["request"]
