"""The application layer as shipped: Bromelia.run() with its real worker *process*, multiprocessing.Manager queues/locks/events
(messages are pickled across the process boundary), real threads and a real loopback connection to a scripted peer.
Complements bvm/appnode.py, which runs the same Bromelia code in one process under the deterministic scheduler.

One execution = one fresh subprocess (run from harness.run_workers); children are terminated explicitly at the end."""
import multiprocessing
import os
import random
import socket
import tempfile
import threading
import time

from . import node as N
from . import refcodec as R
from .realnet import RealScenario, Timeout, Garbled

S6A = 16777251
OUTCOMES = ["answer", "answer-5012", "answer-3002-E-preset", "answer-experimental", "raise", "raise-bare", "none", "string", "request-object"]

YAML = """api_version: v1
name: VERIF
spec:
  - applications:
      - vendor_id: VENDOR_ID_3GPP
        app_id: DIAMETER_APPLICATION_S6a_S6d
    mode: Client
    watchdog_timeout: 3600
    transport_type: TCP
    local:
      ip_address: 127.0.0.1
      hostname: %s
      realm: %s
      port: 3868
    peer:
      ip_address: 127.0.0.1
      hostname: %s
      realm: %s
      port: %d
"""


def _cleanup():
    for p in multiprocessing.active_children():
        try:
            p.terminate()
        except Exception:
            pass


def app_case(seed, nreq=40, ncallers=5, rounds=3, judge="dispatch"):
    """judge: 'dispatch' (C13: handler choice, exactly one answer, fallback content), 'decoration' (C12: identity, Session-Id,
    E flag, Result-Code vs Experimental-Result of handler answers) or 'callers' (C14: phase 2)."""
    from bromelia import Bromelia
    from bromelia.avps import SessionIdAVP, ResultCodeAVP, OriginHostAVP, OriginRealmAVP, ExperimentalResultAVP, VendorIdAVP, ExperimentalResultCodeAVP
    from bromelia.base import DiameterAnswer, DiameterRequest, DiameterAVP, DiameterMessage
    rng = random.Random(seed)
    info = {"kind": "app", "seed": seed}
    sc = RealScenario("client")
    sc.lsock = socket.socket()
    sc.lsock.setsockopt(socket.SOL_SOCKET, socket.SO_REUSEADDR, 1)
    sc.lsock.bind(("127.0.0.1", 0))
    sc.lsock.listen()
    port = sc.lsock.getsockname()[1]
    td = tempfile.mkdtemp(prefix="realapp-")
    cfg = os.path.join(td, "config.yaml")
    with open(cfg, "w") as f:
        f.write(YAML % (N.LOCAL[0], N.LOCAL[1], N.PEER[0], N.PEER[1], port))
    plan = {}          # marker -> outcome (shared with the handler through the closure: handlers run in this process)
    handled = []

    def marker(msg):
        lm = R.decode(msg.dump())[0]
        return N.marker_of(lm)

    def make_handler(code):
        def handler(request):
            k = marker(request)
            handled.append((code, k))
            out = plan.get(k, "answer")
            mk = DiameterAVP(code=99990, flags=0, data=k.to_bytes(4, "big"))
            if out == "raise":
                raise RuntimeError("handler failure %d" % k)
            if out == "raise-bare":
                raise NotImplementedError
            if out == "none":
                return None
            if out == "string":
                return "not an answer"
            if out == "request-object":
                return request
            rc = {"answer": 2001, "answer-5012": 5012, "answer-3002-E-preset": 3002}.get(out)
            avps = [SessionIdAVP(b"handler;0;%d" % k)]
            if out == "answer-experimental":
                avps += [ResultCodeAVP((2001).to_bytes(4, "big")), ExperimentalResultAVP([VendorIdAVP((10415).to_bytes(4, "big")), ExperimentalResultCodeAVP((5420).to_bytes(4, "big"))])]
            else:
                avps += [ResultCodeAVP(rc.to_bytes(4, "big"))]
            avps += [OriginHostAVP(N.LOCAL[0]), OriginRealmAVP(N.LOCAL[1]), mk]
            a = DiameterAnswer(command_code=code, application_id=0, avps=avps)       # decorate_answer must supply the rest
            if out == "answer-3002-E-preset":
                a.header.set_error_bit(True)
            return a
        handler.__name__ = "handler_%d" % code
        return handler
    try:
        app = Bromelia(config_file=cfg)
        for code in (316, 318, 321):
            app.route(application_id=N.u32(S6A), command_code=code.to_bytes(3, "big"))(make_handler(code))
        threading.Thread(target=app.run, daemon=True, name="app-run").start()
        sc.lsock.settimeout(sc.deadline)
        try:
            sc.psock, _ = sc.lsock.accept()
        except socket.timeout:
            raise Timeout("application never connected")
        (cer,), _ = sc.recv_messages(1)
        sc.psock.sendall(R.encode(N.cea(hbh=cer.hbh, e2e=cer.e2e, apps=[S6A])))
        sc.wait(lambda: app.associations is not None and all(w.is_open.is_set() for w in app.associations.values()), "application open")
        time.sleep(0.2)
        # ---------------- phase 1: requests from the peer (C13 dispatch + fallback, C12 decoration)
        reqs = {}
        k = 0
        for rnd in range(rounds):
            blob = b""
            for _ in range(nreq // rounds):
                k += 1
                code = rng.choice([316, 318, 321])
                plan[k] = rng.choice(OUTCOMES)
                lm = N.app_request(k, code=code, size=rng.choice([0, 10, 2000]), dest_host=N.LOCAL[0], dest_realm=N.LOCAL[1])
                lm.hbh, lm.e2e = rng.randrange(1, 2 ** 32), rng.randrange(1, 2 ** 32)
                reqs[k] = (code, lm)
                blob += R.encode(lm)
            sc.psock.sendall(blob)
            time.sleep(rng.choice([0, 0.05]))
        expect_answers = [k for k in reqs if plan[k] != "request-object"]
        lms, _ = sc.recv_messages(len(reqs))
        problems = []
        seen = {}
        for m in lms:
            mk = N.marker_of(m)
            by_ids = [k for k, (c, lm) in reqs.items() if (lm.hbh, lm.e2e) == (m.hbh, m.e2e)]
            if len(by_ids) != 1:
                problems.append(("both", "a message with identifiers (%d, %d) matches %d requests: flags %#x code %d app %d marker %r result %r session %r" % (
                    m.hbh, m.e2e, len(by_ids), m.flags, m.code, m.app_id, mk, [a.value.hex() for a in m.avps if a.code == 268], [a.value for a in m.avps if a.code == 263])))
                continue
            k = by_ids[0]
            seen[k] = seen.get(k, 0) + 1
            code, lm = reqs[k]
            out = plan[k]
            sid_req = [a.value for a in lm.avps if a.code == 263]
            sid = [a.value for a in m.avps if a.code == 263]
            rcs = [int.from_bytes(a.value, "big") for a in m.avps if a.code == 268]
            has_exp = any(a.code == 297 for a in m.avps)
            if m.flags & 0x80:
                problems.append(("dispatch", "request %d (%s): the message sent back has the R flag set" % (k, out)))
                continue
            if (m.code, m.app_id) != (code, S6A):
                problems.append(("decoration", "request %d (%s): answer has command %d application %d" % (k, out, m.code, m.app_id)))
            if sid != sid_req:
                problems.append(("both", "request %d (%s): answer Session-Id %r, request %r" % (k, out, sid, sid_req)))
            if out in ("raise", "raise-bare", "none", "string", "request-object"):
                if rcs != [5012]:
                    problems.append(("dispatch", "request %d (%s): fallback Result-Code %r" % (k, out, rcs)))
                dest = {a.code: a.value for a in m.avps}
                if dest.get(264) != N.LOCAL[0].encode() or dest.get(293) != N.PEER[0].encode() or dest.get(283) != N.PEER[1].encode():
                    problems.append(("dispatch", "request %d (%s): fallback origin/destination %r/%r/%r" % (k, out, dest.get(264), dest.get(293), dest.get(283))))
            else:
                if mk != k:
                    problems.append(("dispatch", "request %d (%s): the answer carries the handler marker %r" % (k, out, mk)))
                if has_exp and rcs:
                    problems.append(("decoration", "request %d (%s): Result-Code sent alongside Experimental-Result" % (k, out)))
            err = any(3000 <= rc < 6000 and rc % 1000 for rc in rcs)
            # (the E flag of the library's own fallback answer is not part of either statement: C12 speaks of answers returned by a handler)
            if rcs and bool(m.flags & 0x20) != err and out.startswith("answer"):
                problems.append(("decoration", "request %d (%s): E flag %s with Result-Code %r" % (k, out, bool(m.flags & 0x20), rcs)))
        missing = [k for k in reqs if k not in seen]
        multi = [k for k, n in seen.items() if n > 1]
        if missing:
            problems.append(("dispatch", "requests %s (%s) were not answered" % (missing[:6], [plan[k] for k in missing[:6]])))
        if multi:
            problems.append(("dispatch", "requests %s answered more than once" % multi[:6]))
        hk = sorted(x[1] for x in handled)
        if hk != sorted(reqs):
            problems.append(("dispatch", "handler invocations %s... for requests 1..%d" % (hk[:12], len(reqs))))
        wrong = [(c, kk) for c, kk in handled if reqs[kk][0] != c]
        if wrong:
            problems.append(("dispatch", "requests dispatched to the handler of another command: %s" % wrong[:5]))
        mine = [t for c, t in problems if c == judge or c == "both"]
        info["problems_of_other_properties"] = len(problems) - len(mine)
        if mine and judge != "callers":
            info.update(result="violation", key="real-app-%s" % judge, detail="; ".join(mine[:5]))
            return info
        problems = []
        info["requests_answered"] = len(seen)
        if judge != "callers":
            info.update(result="ok")
            return info
        # ---------------- phase 2: callers waiting for their answers (C14)
        results = {}
        callers = []
        out_reqs = {}
        for c in range(ncallers):
            kk = 1000 + c
            enc = R.encode(N.app_request(kk, host=N.LOCAL[0], realm=N.LOCAL[1], dest_realm=N.PEER[1], size=rng.choice([0, 500])))
            msg = DiameterMessage.load(enc)[0]
            req = DiameterRequest(command_code=316, application_id=S6A, avps=list(msg.avps))
            out_reqs[kk] = req

            def call(kk=kk, req=req):
                results[kk] = app.send_message(req)
            t = threading.Thread(target=call, daemon=True, name="caller%d" % c)
            callers.append(t)
        for t in callers:
            t.start()
        got, _ = sc.recv_messages(ncallers)
        order = list(range(len(got)))
        rng.shuffle(order)
        stray = N.app_answer(7777)
        stray.hbh = 0x0badf00d
        sc.psock.sendall(R.encode(stray))                  # an answer nobody waits for
        for i in order:
            rq = got[i]
            ans = N.app_answer(N.marker_of(rq))
            ans.hbh, ans.e2e = rq.hbh, rq.e2e
            sc.psock.sendall(R.encode(ans))
            if rng.random() < 0.5:
                time.sleep(0.01)
        t_end = time.monotonic() + sc.deadline
        for t in callers:
            t.join(max(0.1, t_end - time.monotonic()))
        stuck = [t.name for t in callers if t.is_alive()]
        if stuck:
            info.update(result="timeout", detail="callers %s never returned" % stuck)
            return info
        for kk, req in out_reqs.items():
            r = results.get(kk)
            if r is None or not hasattr(r, "dump"):
                problems.append("caller %d got %r" % (kk, r))
                continue
            lm = R.decode(r.dump())[0]
            if lm.flags & 0x80 or lm.hbh != req.header.get_hop_by_hop() or N.marker_of(lm) != kk:
                problems.append("caller %d (hop-by-hop %#x) was given flags %#x hop-by-hop %#x marker %r" % (
                    kk, req.header.get_hop_by_hop(), lm.flags, lm.hbh, N.marker_of(lm)))
        if problems:
            info.update(result="violation", key="real-app-caller-got-wrong-answer", detail="; ".join(problems[:5]))
            return info
        info.update(result="ok", callers=ncallers)
        return info
    except Timeout as ex:
        info.update(result="timeout", detail=str(ex))
        return info
    except Garbled as ex:
        info.update(result="violation", key="real-loopback-outbound-stream-garbled", detail=str(ex))
        return info
    finally:
        sc.abort()
        _cleanup()
