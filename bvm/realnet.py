"""Real-loopback executions: the unmodified node (real threads, real selectors, real kernel sockets on 127.0.0.1) against a
scripted raw-socket peer.  Complements the substituted transport: nothing of bromelia is replaced here, so the verdicts do
not depend on vnet/vsched modelling anything correctly.  The price is that schedules and segmentations are the kernel's;
every wait has a generous wall-clock deadline and a missed deadline is reported as 'timeout' (the caller retries once
before judging).

Must run in a process where node.install() was never called (one worker subprocess per batch)."""
import os
import random
import socket
import threading
import time

from . import node as N
from . import refcodec as R


_port_rng = random.Random(os.getpid() * 7919 + int(time.time() * 1000) % 100003)


def free_port():
    """A port nobody listens on, taken below the ephemeral range so that listeners created with bind(0) by scenarios running
    in parallel never land on it."""
    for _ in range(200):
        p = _port_rng.randrange(10000, 32000)
        s = socket.socket()
        try:
            s.bind(("127.0.0.1", p))
        except OSError:
            continue
        finally:
            s.close()
        return p
    raise Timeout("no free port found")


def open_fds():
    out = []
    for f in os.listdir("/proc/self/fd"):
        try:
            t = os.readlink("/proc/self/fd/" + f)
        except OSError:
            continue
        if t.startswith("socket:") or "eventpoll" in t:
            out.append(t)
    return sorted(out)


class Timeout(Exception):
    pass


class Garbled(Exception):
    pass


class RealScenario:
    """node <-> scripted peer over 127.0.0.1"""

    def __init__(self, role, rcvbuf=None, deadline=60.0, local=None):
        self.local = local or N.LOCAL
        self.role = role
        self.deadline = deadline
        self.rcvbuf = rcvbuf
        self.node = None
        self.psock = None
        self.lsock = None
        self.buf = bytearray()
        self.ready = []
        self.nparsed = 0
        self.watchdogs_answered = 0
        self.threads_before = set(threading.enumerate())
        self.fds_before = open_fds()

    def config(self, port):
        L, P = self.local, N.PEER
        return {"MODE": "CLIENT" if self.role == "client" else "SERVER", "TRANSPORT_TYPE": "TCP",
                "APPLICATIONS": [{"vendor_id": b"\x00\x00\x28\xaf", "app_id": N.u32(16777251)}],
                "LOCAL_NODE_HOSTNAME": L[0], "LOCAL_NODE_REALM": L[1], "LOCAL_NODE_IP_ADDRESS": "127.0.0.1",
                "LOCAL_NODE_PORT": port if self.role == "server" else free_port(),
                "PEER_NODE_HOSTNAME": P[0], "PEER_NODE_REALM": P[1], "PEER_NODE_IP_ADDRESS": "127.0.0.1",
                "PEER_NODE_PORT": port, "WATCHDOG_TIMEOUT": 3600}

    def wait(self, pred, what, deadline=None):
        t_end = time.monotonic() + (deadline or self.deadline)
        while not pred():
            if time.monotonic() > t_end:
                raise Timeout(what)
            time.sleep(0.002)

    # ---- peer side
    def _parse(self):
        # whole messages move from the byte buffer to self.ready (incremental: the buffer never holds more than one
        # unfinished message plus what the last recv returned)
        while len(self.buf) >= 20:
            ln = int.from_bytes(self.buf[1:4], "big")
            if self.buf[0] != 1 or ln < 20 or ln % 4:
                raise Garbled("after %d whole messages the stream continues with %s (not a Diameter header)" % (self.nparsed, bytes(self.buf[:20]).hex()))
            if len(self.buf) < ln:
                break
            self.nparsed += 1
            frame = bytes(self.buf[:ln])
            del self.buf[:ln]
            if frame[4] & 0x80 and int.from_bytes(frame[5:8], "big") == 280:
                # the node's own watchdog request (it counts select() returns, not seconds, so it may come at any time under
                # traffic): answered like any peer would, and not part of what the scenarios judge
                self.watchdogs_answered += 1
                try:
                    self.psock.sendall(R.encode(N.dwa(hbh=int.from_bytes(frame[12:16], "big"), e2e=int.from_bytes(frame[16:20], "big"))))
                except OSError:
                    pass
                continue
            self.ready.append(frame)

    def recv_messages(self, n, deadline=None):
        """Read until n whole messages have arrived; returns them decoded by the reference decoder, and raw."""
        t_end = time.monotonic() + (deadline or self.deadline)
        while True:
            self._parse()
            if len(self.ready) >= n:
                take, self.ready = self.ready[:n], self.ready[n:]
                return [R.decode(m)[0] for m in take], take
            if time.monotonic() > t_end:
                raise Timeout("peer read %d of %d messages" % (len(self.ready), n))
            self.psock.settimeout(0.2)
            try:
                d = self.psock.recv(self.recv_size)
            except socket.timeout:
                continue
            except OSError:
                raise Timeout("peer socket error while reading")
            if not d:
                raise Timeout("node closed the connection while %d of %d messages were read" % (len(self.ready), n))
            self.buf += d

    recv_size = 65536

    def open(self):
        from bromelia.setup import Diameter
        if self.role == "client":
            self.lsock = socket.socket()
            self.lsock.setsockopt(socket.SOL_SOCKET, socket.SO_REUSEADDR, 1)
            if self.rcvbuf:
                self.lsock.setsockopt(socket.SOL_SOCKET, socket.SO_RCVBUF, self.rcvbuf)
            self.lsock.bind(("127.0.0.1", 0))
            self.lsock.listen()
            port = self.lsock.getsockname()[1]
            self.node = Diameter(config=self.config(port))
            self.node.start()
            self.lsock.settimeout(self.deadline)
            try:
                self.psock, _ = self.lsock.accept()
            except socket.timeout:
                raise Timeout("node never connected")
            (cer,), _ = self.recv_messages(1)
            self.psock.sendall(R.encode(N.cea(hbh=cer.hbh, e2e=cer.e2e, apps=[16777251])))
        else:
            port = free_port()
            self.node = Diameter(config=self.config(port))
            self.starter = threading.Thread(target=self.node.start, daemon=True, name="starter")
            self.starter.start()
            t_end = time.monotonic() + self.deadline
            while True:
                self.psock = socket.socket()
                if self.rcvbuf:
                    self.psock.setsockopt(socket.SOL_SOCKET, socket.SO_RCVBUF, self.rcvbuf)
                try:
                    self.psock.connect(("127.0.0.1", port))
                    break
                except OSError:
                    self.psock.close()
                    if time.monotonic() > t_end:
                        raise Timeout("node never listened")
                    time.sleep(0.01)
            self.psock.sendall(R.encode(N.cer(apps=[16777251], hbh=11, e2e=12)))
            self.recv_messages(1)
        self.psock.setsockopt(socket.IPPROTO_TCP, socket.TCP_NODELAY, 1)
        self.wait(lambda: self.node.is_open(), "node open")

    def close_and_check(self):
        """Local close, DPA from the peer, then: Closed, worker threads gone, sockets released.  -> list of problems"""
        problems = []
        self.node.close()
        (dpr,), _ = self.recv_messages(1)
        if N.name_of(dpr) != "DPR":
            problems.append("expected a DPR after close(), got %s" % N.name_of(dpr))
        self.psock.sendall(R.encode(N.dpa(hbh=dpr.hbh, e2e=dpr.e2e)))
        self.wait(lambda: self.node.get_current_state() == "Closed" if hasattr(self.node, "get_current_state") else True, "closed", 30)
        try:
            self.psock.close()
            if self.lsock:
                self.lsock.close()
        except OSError:
            pass

        def leftover():
            return [t.name for t in threading.enumerate() if t not in self.threads_before and t.is_alive() and not t.daemon]
        try:
            self.wait(lambda: not leftover(), "threads", 20)
        except Timeout:
            problems.append("threads still alive after Closed: %s" % leftover())
        fds = open_fds()
        extra = [f for f in fds if f not in self.fds_before and "eventpoll" not in f]
        if extra:
            problems.append("sockets still open after Closed: %s" % extra)
        return problems

    def abort(self):
        for s in (self.psock, self.lsock):
            try:
                if s:
                    s.close()
            except OSError:
                pass


def inbound_case(seed, role="client", n=400):
    """Peer sends n marked application messages, hostile segmentation; the application drains get_message().
    -> dict(result='ok'|'violation'|'timeout', ...)"""
    rng = random.Random(seed)
    sc = RealScenario(role)
    info = {"kind": "inbound", "seed": seed, "role": role, "n": n}
    try:
        sc.open()
        got = []
        done = threading.Event()

        def consumer():
            while len(got) < n:
                m = sc.node.get_message()
                if m is None:
                    break
                got.append(m)
            done.set()
        threading.Thread(target=consumer, daemon=True, name="consumer").start()
        stream = bytearray()
        sizes = []
        for k in range(1, n + 1):
            size = rng.choice([0, 0, 0, 10, 10, 300, 300, 5000, 20000])
            sizes.append(size)
            if rng.random() < 0.08:
                stream += R.encode(R.LMsg(1, rng.choice([0xc0, 0x40]), 316, 16777251, k, 0x30000000 + k, []))     # the bare header
                continue
            stream += R.encode(N.app_request(k, size=size, dest_host=N.LOCAL[0], dest_realm=N.LOCAL[1]))
        info["bytes"] = len(stream)
        mode = rng.choice(["one-byte-head", "random", "header-internal", "mtu", "whole"])
        info["segmentation"] = mode
        i = 0
        nseg = 0
        while i < len(stream):
            if mode == "one-byte-head" and i < 64:
                k = 1
            elif mode == "header-internal":
                k = rng.choice([1, 3, 4, 19, 20, 21, 5003, 20011])
            elif mode == "mtu":
                k = 1448
            elif mode == "whole":
                k = len(stream)
            else:
                k = rng.choice([1, 2, 7, 64, 1000, 4096, 65536, 200000])
            sc.psock.sendall(stream[i:i + k])
            i += k
            nseg += 1
            if rng.random() < 0.3:
                time.sleep(rng.choice([0, 0.0005, 0.002]))
        info["segments"] = nseg
        if not done.wait(sc.deadline):
            info.update(result="timeout", detail="application got %d of %d messages" % (len(got), n))
            sc.abort()
            return info
        marks = []
        for m in got:
            raw = m.dump()
            lm = R.decode(raw)[0]
            mk = N.marker_of(lm)
            marks.append((mk if mk is not None else lm.hbh, len(raw)))
        want = list(range(1, n + 1))
        if [x for x, _ in marks] != want:
            info.update(result="violation", key="real-loopback-inbound-sequence-differs", detail="delivered markers %s..., sent 1..%d (%s)" % (
                [x for x, _ in marks][:30], n, mode))
            sc.abort()
            return info
        problems = sc.close_and_check()
        if problems:
            info.update(result="violation", key="real-loopback-teardown", detail="; ".join(problems))
            return info
        info.update(result="ok", delivered=len(marks))
        return info
    except Timeout as ex:
        info.update(result="timeout", detail=str(ex))
        sc.abort()
        return info
    except Garbled as ex:
        info.update(result="violation", key="real-loopback-outbound-stream-garbled", detail=str(ex))
        sc.abort()
        return info


def outbound_case(seed, role="client", submitters=3, per=40):
    """Application threads submit marked messages; the peer reads slowly through a small receive buffer."""
    from bromelia.base import DiameterMessage
    rng = random.Random(seed)
    sc = RealScenario(role, rcvbuf=rng.choice([None, 4096, 4096, 16384]))
    sc.recv_size = rng.choice([65536, 4096, 512, 100])
    info = {"kind": "outbound", "seed": seed, "role": role, "submitters": submitters, "per": per, "peer_recv_size": sc.recv_size, "rcvbuf": sc.rcvbuf}
    try:
        sc.open()
        sndbuf = rng.choice([None, 4096, 4096, 32768])
        info["sndbuf"] = sndbuf
        if sndbuf:
            # a small kernel send buffer on the node's socket (what a slow path or a sysctl would give): short writes and EAGAIN
            sc.node._association.transport.sock.setsockopt(socket.SOL_SOCKET, socket.SO_SNDBUF, sndbuf)
        submitted = {}
        plans = []
        seq = 0
        for s in range(submitters):
            mine = []
            for j in range(per):
                seq += 1
                size = rng.choice([0, 10, 300, 5000, 30000, 70000])
                enc = R.encode(N.app_request(seq, size=size, host=N.LOCAL[0], realm=N.LOCAL[1], dest_realm=N.PEER[1]))
                submitted[seq] = enc
                mine.append((seq, DiameterMessage.load(enc)[0]))
            plans.append(mine)
        info["bytes"] = sum(len(v) for v in submitted.values())
        inbound = rng.random() < 0.5
        info["inbound"] = inbound

        def submitter(mine, batch):
            if batch:
                for i in range(0, len(mine), 5):
                    sc.node.send_messages([o for _, o in mine[i:i + 5]])
            else:
                for _, o in mine:
                    sc.node.send_message(o)
        ths = [threading.Thread(target=submitter, args=(mine, i % 2 == 1), daemon=True, name="submitter%d" % i) for i, mine in enumerate(plans)]
        for t in ths:
            t.start()
        if inbound:
            def feeder():
                for k in range(30):
                    try:
                        sc.psock.sendall(R.encode(N.app_answer(9000 + k)))
                    except OSError:
                        return
                    time.sleep(0.003)
            threading.Thread(target=feeder, daemon=True, name="feeder").start()
        total = submitters * per
        try:
            lms, raws = sc.recv_messages(total)
        except Garbled:
            raise
        except Timeout as ex:
            info.update(result="timeout", detail="%s (whole messages read %d, residue %d bytes)" % (ex, len(sc.ready), len(sc.buf)))
            sc.abort()
            return info
        marks = [N.marker_of(lm) for lm in lms]
        dup = sorted({m for m in marks if marks.count(m) > 1})
        missing = sorted(set(submitted) - set(marks))
        bad = None
        if dup or missing or any(m not in submitted for m in marks):
            bad = "written markers %s...: duplicated %s missing %s foreign %s" % (marks[:20], dup[:5], missing[:5], [m for m in marks if m not in submitted][:5])
        elif any(raw != submitted[m] for m, raw in zip(marks, raws)):
            bad = "a written message is not byte-identical to the submitted one"
        else:
            for mine in plans:
                ids = [s for s, _ in mine]
                order = [m for m in marks if m in set(ids)]
                if order != ids:
                    bad = "submitter order %s..., written %s..." % (ids[:8], order[:8])
                    break
        if bad:
            info.update(result="violation", key="real-loopback-outbound-stream-differs", detail=bad)
            sc.abort()
            return info
        for t in ths:
            t.join(10)
        problems = sc.close_and_check()
        if problems:
            info.update(result="violation", key="real-loopback-teardown", detail="; ".join(problems))
            return info
        info.update(result="ok", written=len(marks))
        return info
    except Timeout as ex:
        info.update(result="timeout", detail=str(ex))
        sc.abort()
        return info
    except Garbled as ex:
        info.update(result="violation", key="real-loopback-outbound-stream-garbled", detail=str(ex))
        sc.abort()
        return info


def lifecycle_case(seed, role="client", cause="peer-disconnect", consumer=True):
    """One way of ending a connection on the real loopback, then a restart of the same node object and a clean close."""
    import struct
    rng = random.Random(seed)
    sc = RealScenario(role)
    info = {"kind": "lifecycle", "seed": seed, "role": role, "cause": cause}
    problems = []
    try:
        if cause == "refused":
            from bromelia.setup import Diameter
            sc.role = role = "client"
            port = free_port()                      # nobody listens there
            sc.node = Diameter(config=sc.config(port))
            sc.node.start()
        elif cause == "context-retry":
            # the library's own way of starting a node: `with node.context():` keeps calling start() on the same object
            # (every 5 s while Closed) until the connection comes up.  The first attempt is refused; the peer appears later.
            from bromelia.setup import Diameter
            import contextlib, io
            sc.role = role = "client"
            port = free_port()
            sc.node = Diameter(config=sc.config(port))
            inside, leave, ctx_done, ctx_err = threading.Event(), threading.Event(), threading.Event(), []

            def run_context():
                try:
                    with contextlib.redirect_stdout(io.StringIO()):
                        with sc.node.context():
                            inside.set()
                            leave.wait(120)
                except BaseException as ex:
                    ctx_err.append(repr(ex))
                finally:
                    ctx_done.set()
            threading.Thread(target=run_context, daemon=True, name="context-runner").start()
            time.sleep(rng.choice([0.3, 1.0, 2.5]))
            if sc.node.get_current_state() != "Closed":
                problems.append("state %r after the refused first attempt" % (sc.node.get_current_state(),))
            left = [t.name for t in threading.enumerate() if t not in sc.threads_before and t.is_alive() and not t.daemon]
            if left:
                problems.append("threads alive between the attempts: %s" % left)
            sc.lsock = socket.socket()
            sc.lsock.setsockopt(socket.SOL_SOCKET, socket.SO_REUSEADDR, 1)
            sc.lsock.bind(("127.0.0.1", port))
            sc.lsock.listen()
            sc.lsock.settimeout(sc.deadline)
            try:
                sc.psock, _ = sc.lsock.accept()
            except socket.timeout:
                raise Timeout("context() never retried the refused connection%s" % (": " + ctx_err[0] if ctx_err else ""))
            (cer,), _ = sc.recv_messages(1)
            sc.psock.sendall(R.encode(N.cea(hbh=cer.hbh, e2e=cer.e2e, apps=[16777251])))
            sc.wait(lambda: sc.node.is_open(), "open after the retry")
            if not inside.wait(30):
                problems.append("context() did not hand the open node to its body")
            leave.set()                                     # leaving the with-block closes the node: one DPR, then our DPA
            (dpr,), _ = sc.recv_messages(1)
            if N.name_of(dpr) != "DPR":
                problems.append("leaving context() sent %s, not a DPR" % N.name_of(dpr))
            sc.psock.sendall(R.encode(N.dpa(hbh=dpr.hbh, e2e=dpr.e2e)))
            if not ctx_done.wait(60):
                problems.append("context() never returned after its body ended")
            if ctx_err:
                problems.append("context() raised %s" % ctx_err[0])
        elif cause == "pre-ce-disconnect":
            # server only: the peer connects and leaves before sending its CER
            from bromelia.setup import Diameter
            sc.role = role = "server"
            port = free_port()
            sc.node = Diameter(config=sc.config(port))
            threading.Thread(target=sc.node.start, daemon=True, name="starter").start()
            t_end = time.monotonic() + sc.deadline
            while True:
                sc.psock = socket.socket()
                try:
                    sc.psock.connect(("127.0.0.1", port))
                    break
                except OSError:
                    sc.psock.close()
                    if time.monotonic() > t_end:
                        raise Timeout("node never listened")
                    time.sleep(0.01)
            time.sleep(rng.choice([0, 0.01, 0.2]))
            sc.psock.close()
            # the state is Closed all along: what must be observed is the release of threads and sockets
            time.sleep(0.5)
        else:
            sc.open()
        returned = threading.Event()
        if cause in ("refused", "pre-ce-disconnect", "context-retry"):
            consumer = False
        if consumer and cause != "refused":
            def blocked():
                sc.node.get_message()
                returned.set()
            threading.Thread(target=blocked, daemon=True, name="blocked-consumer").start()
            time.sleep(0.05)
        if cause == "peer-dpr":
            dpr_cause = rng.choice([0, 1, 2])
            info["dpr_cause"] = dpr_cause
            sc.psock.sendall(R.encode(N.dpr(hbh=71, e2e=72, cause=dpr_cause)))
            if dpr_cause == 0:
                (dpa,), _ = sc.recv_messages(1)
                if N.name_of(dpa) != "DPA" or (dpa.hbh, dpa.e2e) != (71, 72):
                    problems.append("DPR answered with %s %r" % (N.name_of(dpa), (dpa.hbh, dpa.e2e)))
        elif cause == "peer-disconnect":
            sc.psock.close()
        elif cause == "peer-reset-outbound":
            from bromelia.base import DiameterMessage
            big = [DiameterMessage.load(R.encode(N.app_request(300 + k, size=70000, host=N.LOCAL[0], realm=N.LOCAL[1], dest_realm=N.PEER[1])))[0] for k in range(12)]
            sc.node._association.transport.sock.setsockopt(socket.SOL_SOCKET, socket.SO_SNDBUF, 4096)

            def flood():
                try:
                    sc.node.send_messages(big)
                except BaseException:
                    pass                    # an error reported to the caller is fine; what is judged is the end state
            threading.Thread(target=flood, daemon=True, name="flood").start()
            time.sleep(rng.choice([0.01, 0.05, 0.2]))
            sc.psock.setsockopt(socket.SOL_SOCKET, socket.SO_LINGER, struct.pack("ii", 1, 0))
            sc.psock.close()
        elif cause == "peer-reset":
            sc.psock.setsockopt(socket.SOL_SOCKET, socket.SO_LINGER, struct.pack("ii", 1, 0))
            sc.psock.close()
        elif cause == "local-close":
            sc.node.close()
            (dpr,), _ = sc.recv_messages(1)
            sc.psock.sendall(R.encode(N.dpa(hbh=dpr.hbh, e2e=dpr.e2e)))
        sc.wait(lambda: sc.node.get_current_state() == "Closed", "Closed after %s" % cause)

        def leftover():
            return [t.name for t in threading.enumerate() if t not in sc.threads_before and t.is_alive() and not t.daemon]
        try:
            sc.wait(lambda: not leftover(), "threads", 20)
        except Timeout:
            problems.append("threads still alive after Closed: %s" % leftover())
        if consumer and not returned.wait(10):
            problems.append("a consumer blocked in get_message() did not return")
        for so in (sc.psock, sc.lsock):
            try:
                if so:
                    so.close()
            except OSError:
                pass
        time.sleep(0.05)
        extra = [f for f in open_fds() if f not in sc.fds_before and "eventpoll" not in f]
        if extra:
            problems.append("sockets still open after Closed: %s" % extra)
        if problems:
            info.update(result="violation", key="real-loopback-end-of-life:%s" % cause, detail="; ".join(problems))
            return info
        # ---- the same object starts again
        sc.psock = sc.lsock = None
        sc.buf = bytearray()
        sc.ready = []
        node = sc.node
        if role == "client":
            sc.lsock = socket.socket()
            sc.lsock.setsockopt(socket.SOL_SOCKET, socket.SO_REUSEADDR, 1)
            sc.lsock.bind(("127.0.0.1", node.config["PEER_NODE_PORT"]))
            sc.lsock.listen()
            node.start()
            sc.lsock.settimeout(sc.deadline)
            try:
                sc.psock, _ = sc.lsock.accept()
            except socket.timeout:
                raise Timeout("restarted node never connected")
            (cer,), _ = sc.recv_messages(1)
            sc.psock.sendall(R.encode(N.cea(hbh=cer.hbh, e2e=cer.e2e, apps=[16777251])))
        else:
            threading.Thread(target=node.start, daemon=True, name="starter2").start()
            t_end = time.monotonic() + sc.deadline
            while True:
                sc.psock = socket.socket()
                try:
                    sc.psock.connect(("127.0.0.1", node.config["LOCAL_NODE_PORT"]))
                    break
                except OSError:
                    sc.psock.close()
                    if time.monotonic() > t_end:
                        raise Timeout("restarted node never listened")
                    time.sleep(0.01)
            sc.psock.sendall(R.encode(N.cer(apps=[16777251], hbh=21, e2e=22)))
            sc.recv_messages(1)
        sc.wait(lambda: node.is_open(), "restarted node open")
        problems = sc.close_and_check()
        if problems:
            info.update(result="violation", key="real-loopback-teardown-after-restart:%s" % cause, detail="; ".join(problems))
            return info
        info.update(result="ok")
        return info
    except Timeout as ex:
        info.update(result="timeout", detail=str(ex))
        sc.abort()
        return info
    except Garbled as ex:
        info.update(result="violation", key="real-loopback-outbound-stream-garbled", detail=str(ex))
        sc.abort()
        return info


def base_answers_case(seed, role="client"):
    """C07 on the real loopback: bursts of DWR / CER / DPR with boundary identifiers, answers must pair one to one, in order,
    with the request's identifiers, local origin and a Result-Code; then the same object is started again and the exchange repeated."""
    rng = random.Random(seed)
    sc = sc1 = RealScenario(role)
    info = {"kind": "base", "seed": seed, "role": role}
    BOUND = [0, 1, 2 ** 31, 2 ** 32 - 1, 2 ** 31 - 1, 0x01000000, 255, 256]

    def ident():
        return rng.choice(BOUND) if rng.random() < 0.5 else rng.randrange(2 ** 32)

    def exchange(tag, sc=None):
        sc = sc or sc1
        reqs = []
        for _ in range(rng.randrange(3, 25)):
            kind = rng.choice(["DWR", "DWR", "DWR", "CER", "APP", "STRAY-DWA"])
            h, e = ident(), ident()
            if rng.random() < 0.2:
                e = h
            if kind == "DWR":
                reqs.append(("DWA", h, e, R.encode(N.dwr(hbh=h, e2e=e))))
            elif kind == "CER":
                reqs.append(("CEA", h, e, R.encode(N.cer(apps=[16777251], hbh=h, e2e=e))))
            elif kind == "STRAY-DWA":
                reqs.append((None, h, e, R.encode(N.dwa(hbh=h, e2e=e))))                # a base answer from the peer: must not be answered
            else:
                reqs.append((None, h, e, R.encode(N.app_answer(5000 + len(reqs)))))      # inbound traffic that provokes no answer
        h, e = ident(), ident()
        reqs.append(("DPA", h, e, R.encode(N.dpr(hbh=h, e2e=e))))
        blob = b"".join(r[3] for r in reqs)
        if rng.random() < 0.5:
            sc.psock.sendall(blob)
        else:
            i = 0
            while i < len(blob):
                k = rng.choice([1, 7, 20, 21, 100, 1000])
                sc.psock.sendall(blob[i:i + k])
                i += k
        want = [(n, h, e) for n, h, e, _ in reqs if n]
        lms, _ = sc.recv_messages(len(want))
        got = [(N.name_of(m), m.hbh, m.e2e) for m in lms]
        if got != want:
            return "%s: answers %s..., requests %s..." % (tag, got[:8], want[:8])
        for m in lms:
            if m.flags & 0x80:
                return "%s: %s has the R flag set" % (tag, N.name_of(m))
            codes = {a.code: a.value for a in m.avps}
            if codes.get(264) != sc.local[0].encode() or codes.get(296) != sc.local[1].encode() or 268 not in codes:
                return "%s: %s carries origin %r/%r, result %r" % (tag, N.name_of(m), codes.get(264), codes.get(296), codes.get(268))
        info["answers_checked"] = info.get("answers_checked", 0) + len(want)
        return None
    try:
        sc.open()
        bad = exchange("first connection")
        if bad:
            info.update(result="violation", key="real-loopback-base-answers-differ", detail=bad)
            sc.abort()
            return info
        sc.wait(lambda: sc.node.get_current_state() == "Closed", "Closed after DPR")
        sc.psock.close()
        if sc.lsock:
            sc.lsock.close()
        # reconnect with the same node object
        node = sc.node
        sc.buf = bytearray()
        sc.ready = []

        def leftover():
            return [t.name for t in threading.enumerate() if t not in sc.threads_before and t.is_alive() and not t.daemon]
        sc.wait(lambda: not leftover(), "threads after first connection", 20)
        if role == "client":
            sc.lsock = socket.socket()
            sc.lsock.setsockopt(socket.SOL_SOCKET, socket.SO_REUSEADDR, 1)
            sc.lsock.bind(("127.0.0.1", node.config["PEER_NODE_PORT"]))
            sc.lsock.listen()
            node.start()
            sc.lsock.settimeout(sc.deadline)
            try:
                sc.psock, _ = sc.lsock.accept()
            except socket.timeout:
                raise Timeout("restarted node never connected")
            (cer,), _ = sc.recv_messages(1)
            sc.psock.sendall(R.encode(N.cea(hbh=cer.hbh, e2e=cer.e2e, apps=[16777251])))
        else:
            threading.Thread(target=node.start, daemon=True, name="starter2").start()
            t_end = time.monotonic() + sc.deadline
            while True:
                sc.psock = socket.socket()
                try:
                    sc.psock.connect(("127.0.0.1", node.config["LOCAL_NODE_PORT"]))
                    break
                except OSError:
                    sc.psock.close()
                    if time.monotonic() > t_end:
                        raise Timeout("restarted node never listened")
                    time.sleep(0.01)
            h, e = ident(), ident()
            sc.psock.sendall(R.encode(N.cer(apps=[16777251], hbh=h, e2e=e)))
            (cea,), _ = sc.recv_messages(1)
            if (N.name_of(cea), cea.hbh, cea.e2e) != ("CEA", h, e):
                info.update(result="violation", key="real-loopback-base-answers-differ",
                            detail="second connection: CEA %r for CER %r" % ((cea.hbh, cea.e2e), (h, e)))
                sc.abort()
                return info
        sc.wait(lambda: node.is_open(), "restarted node open")
        bad = exchange("second connection")
        if bad:
            info.update(result="violation", key="real-loopback-base-answers-differ", detail=bad)
            sc.abort()
            return info
        sc.wait(lambda: node.get_current_state() == "Closed", "Closed after second DPR")
        sc.abort()
        # a second node object with another identity in the same process: its answers carry *its* identity
        sc2 = RealScenario(role, local=("second.node.example", "second.example"))
        try:
            sc2.open()
            bad = exchange("second node object", sc2)
            if bad:
                info.update(result="violation", key="real-loopback-base-answers-differ", detail=bad)
                return info
            sc2.wait(lambda: sc2.node.get_current_state() == "Closed", "second node Closed after DPR")
        finally:
            sc2.abort()
        info.update(result="ok")
        return info
    except Timeout as ex:
        info.update(result="timeout", detail=str(ex))
        sc.abort()
        return info
    except Garbled as ex:
        info.update(result="violation", key="real-loopback-outbound-stream-garbled", detail=str(ex))
        sc.abort()
        return info


def statemachine_case(seed, role="client", length=6):
    """C06 on the real loopback: a random sequence of inbound messages and local events applied to an Open node; after each
    event the reported state and the messages written are compared with the hard clauses of the reference model (bvm/scen.py)."""
    from . import scen
    rng = random.Random(seed)
    sc = RealScenario(role)
    info = {"kind": "statemachine", "seed": seed, "role": role}
    delivered = []
    try:
        sc.open()

        def consumer():
            while True:
                m = sc.node.get_message()
                if m is None:
                    return
                delivered.append(m.header.get_hop_by_hop())
        threading.Thread(target=consumer, daemon=True, name="consumer").start()
        ids = scen.Ids(1000 + rng.randrange(10000))
        model = scen.OPEN
        trace = []
        events = ["DWR", "DWR", "DWR-other-host", "DWA", "DPA", "APP-req", "APP-req", "APP-req-misaddressed", "APP-ans", "CER", "CEA",
                  "DPR", "local-stop", "peer-disconnect", "DPR-bad-cause"]

        def drain(quiet=0.25, limit=10.0):
            """everything the node writes until it has been silent for `quiet` seconds"""
            out = []
            t_end = time.monotonic() + limit
            last = time.monotonic()
            sc.psock.settimeout(0.05)
            while time.monotonic() < t_end and time.monotonic() - last < quiet:
                try:
                    d = sc.psock.recv(65536)
                except socket.timeout:
                    d = None
                except OSError:
                    break
                if d:
                    sc.buf += d
                    last = time.monotonic()
                elif d == b"":
                    break
                sc._parse()
            take, sc.ready = sc.ready, []
            return [R.decode(m)[0] for m in take]
        for step in range(length):
            ev = rng.choice(events)
            if model == scen.CLOSING:
                ev = rng.choice(["DPA", "DPA", "DWR", "APP-req", "peer-disconnect"])
            exp = scen.model_step(model, ev, role)
            trace.append(ev)
            data, (h, e) = scen.event_bytes(ev, ids)
            ndel = len(delivered)
            if data is not None:
                sc.psock.sendall(data)
            elif ev == "local-stop":
                sc.node.close()
            elif ev == "peer-disconnect":
                sc.psock.close()
            want_state = {scen.OPEN: ("I-Open", "R-Open"), scen.CLOSING: ("Closing",), scen.CLOSED: ("Closed",)}[exp["next"]]
            if exp["hard"]:
                try:
                    sc.wait(lambda: sc.node.get_current_state() in want_state, "state %s after %s" % (want_state, trace), 20)
                except Timeout:
                    info.update(result="violation", key="real-loopback-state-differs-from-model", detail="after %s the node reports %s, the model says %s" % (
                        trace, sc.node.get_current_state(), exp["next"]))
                    sc.abort()
                    return info
            emitted = drain() if ev != "peer-disconnect" else []
            names = [(N.name_of(m), m.hbh, m.e2e) for m in emitted]
            if exp["hard"]:
                for want in exp["emit"]:
                    if want == "DPR":
                        if [n for n, _, _ in names].count("DPR") != 1:
                            info.update(result="violation", key="real-loopback-emission-differs-from-model", detail="after %s: %s written, exactly one DPR expected" % (trace, names))
                            sc.abort()
                            return info
                    elif (want, h, e) not in names or [n for n, _, _ in names].count(want) != 1:
                        info.update(result="violation", key="real-loopback-emission-differs-from-model", detail="after %s: %s written, one %s for (%d, %d) expected" % (trace, names, want, h, e))
                        sc.abort()
                        return info
            time.sleep(0.05)
            if ev.startswith("APP-req") and model != scen.OPEN and len(delivered) > ndel:
                info.update(result="violation", key="real-loopback-delivery-outside-open", detail="after %s a message was handed to the application in %s" % (trace, model))
                sc.abort()
                return info
            # follow the node where the model is soft
            st = sc.node.get_current_state()
            model = scen.reported_to_model(st)
            info["events_applied"] = step + 1
            if model == scen.CLOSED or ev == "peer-disconnect":
                break
            if model not in (scen.OPEN, scen.CLOSING):
                break
        if model != scen.CLOSED:
            # finish: whatever state we are in, a peer disconnect must close it (H4)
            try:
                sc.psock.close()
            except OSError:
                pass
            try:
                sc.wait(lambda: sc.node.get_current_state() == "Closed", "Closed after final disconnect (%s)" % trace, 30)
            except Timeout:
                info.update(result="violation", key="real-loopback-state-differs-from-model", detail="after %s + peer disconnect the node reports %s" % (trace, sc.node.get_current_state()))
                sc.abort()
                return info

        def leftover():
            return [t.name for t in threading.enumerate() if t not in sc.threads_before and t.is_alive() and not t.daemon]
        try:
            sc.wait(lambda: not leftover(), "threads", 20)
        except Timeout:
            info.update(result="violation", key="real-loopback-closed-but-not-released", detail="after %s: threads %s still alive in Closed" % (trace, leftover()))
            sc.abort()
            return info
        sc.abort()
        time.sleep(0.05)
        extra = [f for f in open_fds() if f not in sc.fds_before and "eventpoll" not in f]
        if extra:
            info.update(result="violation", key="real-loopback-closed-but-not-released", detail="after %s: sockets %s still open in Closed" % (trace, extra))
            return info
        info.update(result="ok", trace=trace)
        return info
    except Timeout as ex:
        info.update(result="timeout", detail=str(ex))
        sc.abort()
        return info
    except Garbled as ex:
        info.update(result="violation", key="real-loopback-outbound-stream-garbled", detail=str(ex))
        sc.abort()
        return info


def twin_nodes_case(seed, n=1500):
    """Two node objects with the *same* local identity in one process (one client identity, two servers), both peers sending
    watchdog requests at full speed with a tiny interpreter switch interval: every DWA on each connection must answer that
    connection's requests, in order, with their identifiers."""
    import sys
    rng = random.Random(seed)
    info = {"kind": "twins", "seed": seed, "n": n}
    a, b = RealScenario("client"), RealScenario("client")
    old = sys.getswitchinterval()
    try:
        a.open()
        b.open()
        sys.setswitchinterval(1e-6)
        results = {}

        def hammer(tag, sc, base):
            try:
                ids = [(base + k, (base ^ 0x5a5a0000) + k) for k in range(n)]
                got = []
                sent = 0
                while len(got) < n:
                    burst = min(n - sent, rng.choice([1, 2, 5, 20]))
                    if burst:
                        sc.psock.sendall(b"".join(R.encode(N.dwr(hbh=h, e2e=e)) for h, e in ids[sent:sent + burst]))
                        sent += burst
                    lms, _ = sc.recv_messages(min(burst or 1, n - len(got)))
                    got += [(N.name_of(m), m.hbh, m.e2e) for m in lms]
                want = [("DWA", h, e) for h, e in ids]
                bad = [(i, g, w) for i, (g, w) in enumerate(zip(got, want)) if g != w]
                results[tag] = bad[:3]
            except (Timeout, Garbled) as ex:
                results[tag] = "timeout: %s" % ex
        ta = threading.Thread(target=hammer, args=("A", a, 0x10000000), daemon=True)
        tb = threading.Thread(target=hammer, args=("B", b, 0x70000000), daemon=True)
        ta.start(); tb.start()
        ta.join(a.deadline * 2); tb.join(a.deadline * 2)
        sys.setswitchinterval(old)
        if ta.is_alive() or tb.is_alive() or any(isinstance(v, str) for v in results.values()):
            info.update(result="timeout", detail="twin exchange did not complete: %s" % {k: v for k, v in results.items() if isinstance(v, str)})
            return info
        bad = {k: v for k, v in results.items() if v}
        if bad:
            info.update(result="violation", key="real-loopback-base-answers-differ", detail="two nodes with the same local identity: %s" % bad)
            return info
        info["answers_checked"] = 2 * n
        problems = []
        for sc in (a, b):
            sc.node.close()
        for sc in (a, b):
            (dpr,), _ = sc.recv_messages(1)
            sc.psock.sendall(R.encode(N.dpa(hbh=dpr.hbh, e2e=dpr.e2e)))
        for sc in (a, b):
            sc.wait(lambda sc=sc: sc.node.get_current_state() == "Closed", "closed", 30)
            sc.abort()

        def leftover():
            return [t.name for t in threading.enumerate() if t not in a.threads_before and t.is_alive() and not t.daemon]
        try:
            a.wait(lambda: not leftover(), "threads", 20)
        except Timeout:
            problems.append("threads still alive after both nodes closed: %s" % leftover())
        extra = [f for f in open_fds() if f not in a.fds_before and "eventpoll" not in f]
        if extra:
            problems.append("sockets still open after both nodes closed: %s" % extra)
        if problems:
            info.update(result="violation", key="real-loopback-teardown", detail="; ".join(problems))
            return info
        info.update(result="ok")
        return info
    except Timeout as ex:
        info.update(result="timeout", detail=str(ex))
        return info
    except Garbled as ex:
        info.update(result="violation", key="real-loopback-outbound-stream-garbled", detail=str(ex))
        return info
    finally:
        sys.setswitchinterval(old)
        a.abort()
        b.abort()


def twin_inbound_case(seed, n=150):
    """Two node objects with the same local identity in one process, one connection and one application thread each: both
    peers send marked application messages at the same time, each fragmented its own way, one application starting to read
    late.  Each application must receive its own peer's sequence and nothing of the other's."""
    rng = random.Random(seed)
    info = {"kind": "twin-inbound", "seed": seed, "n": n}
    a, b = RealScenario("client"), RealScenario("client")
    try:
        a.open()
        b.open()
        sides = [{"tag": "A", "sc": a, "base": 0, "got": []}, {"tag": "B", "sc": b, "base": 500000, "got": []}]
        stop = threading.Event()

        def consumer(side):
            while len(side["got"]) < n and not stop.is_set():
                m = side["sc"].node.get_message()
                if m is None:
                    break
                lm = R.decode(m.dump())[0]
                mk = N.marker_of(lm)
                side["got"].append(mk if mk is not None else lm.hbh)

        def sender(side, r):
            stream = b"".join(R.encode(N.app_request(side["base"] + k, size=r.choice([0, 0, 10, 300, 3000]), dest_host=N.LOCAL[0], dest_realm=N.LOCAL[1])) for k in range(1, n + 1))
            i = 0
            while i < len(stream):
                k = r.choice([1, 7, 20, 21, 64, 1000, 4096, 65536])
                side["sc"].psock.sendall(stream[i:i + k])
                i += k
                if r.random() < 0.3:
                    time.sleep(r.choice([0, 0.0005, 0.002]))
        late = rng.choice([None, 0, 1])
        info["late_reader"] = late
        cons = [threading.Thread(target=consumer, args=(x,), daemon=True, name="consumer_" + x["tag"]) for x in sides]
        for i, t in enumerate(cons):
            if late != i:
                t.start()
        snd = [threading.Thread(target=sender, args=(x, random.Random(seed * 7 + i)), daemon=True) for i, x in enumerate(sides)]
        for t in snd:
            t.start()
        for t in snd:
            t.join(a.deadline)
        if late is not None:
            time.sleep(0.2)
            cons[late].start()

        def foreign():
            return [(x["tag"], g) for x in sides for g in list(x["got"]) if not x["base"] < g <= x["base"] + n]
        try:
            a.wait(lambda: foreign() or all(len(x["got"]) >= n for x in sides), "both applications served", a.deadline)
        except Timeout:
            pass
        stop.set()
        bad = foreign()
        if bad:
            info.update(result="violation", key="real-loopback-inbound-delivered-to-another-nodes-application",
                        detail="two nodes in one process: application %s received message %d of the other node's peer (A got %d, B got %d messages)" % (
                            bad[0][0], bad[0][1], len(sides[0]["got"]), len(sides[1]["got"])))
            return info
        for x in sides:
            want = list(range(x["base"] + 1, x["base"] + n + 1))
            if len(x["got"]) < n:
                info.update(result="timeout", detail="application %s got %d of %d messages" % (x["tag"], len(x["got"]), n))
                return info
            if x["got"] != want:
                info.update(result="violation", key="real-loopback-inbound-sequence-differs", detail="two nodes in one process: application %s received %s..., its peer sent %d..%d" % (
                    x["tag"], x["got"][:20], want[0], want[-1]))
                return info
        info.update(result="ok", delivered=2 * n)
        return info
    except Timeout as ex:
        info.update(result="timeout", detail=str(ex))
        return info
    finally:
        a.abort()
        b.abort()


DEATHS = []


def _excepthook(args):
    import traceback
    DEATHS.append("%s died with %s: %s" % (args.thread.name if args.thread else "?", args.exc_type.__name__,
                                           "".join(traceback.format_tb(args.exc_traceback))[-300:]))


def run_cases(acc, cases):
    """cases: [{'kind','seed','role',...}] executed one after another; a timeout is retried once, alone, before it counts."""
    threading.excepthook = _excepthook          # uncaught exceptions of the node's threads go into the report, not to stderr
    fn = {"inbound": inbound_case, "outbound": outbound_case, "lifecycle": lifecycle_case, "base": base_answers_case, "statemachine": statemachine_case, "twins": twin_nodes_case, "twin-inbound": twin_inbound_case}
    if any(c["kind"] == "app" for c in cases):
        from . import realapp
        fn["app"] = realapp.app_case
    for c in cases:
        args = {k: v for k, v in c.items() if k != "kind"}
        del DEATHS[:]
        r = fn[c["kind"]](**args)
        if r["result"] == "timeout":
            acc.counters["real_loopback_retries"] += 1
            time.sleep(1.0)
            r = fn[c["kind"]](**args)
        acc.evaluations += 1
        acc.counters["real_loopback_executions"] += 1
        if r["result"] == "ok":
            acc.counters["real_loopback_ok"] += 1
            acc.counters["real_loopback_bytes"] += r.get("bytes", 0)
            acc.sigs.add("real/%s/%s/%s" % (c["kind"], c.get("role") or c.get("judge"), c["seed"]))
            acc.counters["real_app_requests_answered"] += r.get("requests_answered", 0)
            acc.counters["real_app_callers_served"] += r.get("callers", 0)
        elif r["result"] == "violation":
            acc.violation(r["key"], r["detail"], {"real_case": c, "info": {k: v for k, v in r.items() if k != "detail"}, "thread_deaths": list(DEATHS)})
        else:
            acc.violation("real-loopback-never-completes", "twice in a row: %s%s" % (r["detail"], ("; " + DEATHS[0]) if DEATHS else ""),
                          {"real_case": c, "info": r, "thread_deaths": list(DEATHS)})
        if DEATHS:
            acc.observe("real-loopback-thread-death:%s" % DEATHS[0].split(":")[0][:80])
        acc.sample({"real_loopback": {k: v for k, v in r.items() if k in ("kind", "role", "segmentation", "segments", "bytes", "peer_recv_size", "result")}}, limit=2)
