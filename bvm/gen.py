"""Dictionary-driven content generators.

A generated AVP is a Spec: how to build it through the public API (class + constructor
argument) and what it must look like on the wire (an LAvp computed by reference rules only).
"""
import datetime
import random

from . import refcodec as R
from . import refdict as RD

UTF8_ALPHABET = ["a", "b", "Z", "0", "9", "-", ".", "_", " ", "ñ", "é", "ß", "日", "本", "€", "😀"]
ADDR4 = ["0.0.0.0", "127.0.0.1", "255.255.255.255", "10.0.0.1", "192.168.0.255", "1.2.3.4",
         "100.64.0.1", "224.0.0.251"]
ADDR6 = ["::", "::1", "2001:db8::1", "fe80::1", "ffff:ffff:ffff:ffff:ffff:ffff:ffff:ffff",
         "2001:db8:0:0:1:0:0:1", "::ffff:192.0.2.1", "1:2:3:4:5:6:7:8", "2001:db8::"]
T_MAX = datetime.datetime(1900, 1, 1) + datetime.timedelta(seconds=2 ** 32 - 1)


class Spec:
    __slots__ = ("cls", "arg", "lavp", "sig", "members", "path")

    def __init__(self, cls, arg, lavp, sig, members=None, path=None):
        self.path = path        # Grouped built from a list: (construction path, number of members given to the constructor)
        self.cls = cls          # class object, or None for a generic DiameterAVP
        self.arg = arg          # constructor argument (dict of kwargs for generic AVPs)
        self.lavp = lavp        # expected wire content
        self.sig = sig          # structural signature
        self.members = members  # [Spec] for Grouped built from a list

    def build(self):
        from bromelia.base import DiameterAVP
        if self.cls is None:
            return DiameterAVP(**self.arg)
        if self.members is not None:
            objs = [m.build() for m in self.members]
            path, k = self.path or ("list", len(objs))
            if path == "list":
                return self.cls(objs)
            g = self.cls(objs[:k])
            if path == "list+append":
                for o in objs[k:]:
                    g.append(o)
            elif path == "list+extend":
                g.extend(objs[k:])
            elif path == "avps=":
                g.avps = objs
            return g
        return self.cls(self.arg)

    def describe(self):
        return {"class": self.cls.__name__ if self.cls else "DiameterAVP",
                "arg": _j(self.arg) if self.members is None else [m.describe() for m in self.members],
                "expect": self.lavp.to_json()}


def _j(x):
    if isinstance(x, bytes):
        return {"bytes": x.hex()}
    if isinstance(x, datetime.datetime):
        return {"datetime": x.isoformat()}
    if isinstance(x, dict):
        return {k: _j(v) for k, v in x.items()}
    return x


class Gen:
    def __init__(self, seed, classes=None):
        from . import discover
        self.rng = random.Random(seed)
        self.rd = RD.load()
        self.classes = classes or discover.avp_classes()
        self.by_name = {}
        for c in self.classes:
            self.by_name.setdefault(c.__name__, c)
        self.known_pairs = {(r["vendor"], r["code"]) for r in self.rd["avps"].values()}

    # ------------------------------------------------------------------ primitive domains
    def utf8(self, residue=None):
        n = self.rng.randrange(1, 24)
        s = "".join(self.rng.choice(UTF8_ALPHABET) for _ in range(n))
        if residue is not None:
            while len(s.encode("utf-8")) % 4 != residue:
                s += self.rng.choice("abcxyz")
        return s

    def octets(self, residue=None, minlen=1):
        n = self.rng.randrange(minlen, 40)
        if residue is not None:
            n += (residue - n) % 4
            if n < minlen:
                n += 4
        return bytes(self.rng.randrange(256) for _ in range(n))

    def identity(self, residue=None):
        labels = ["hss", "mme", "epc", "mnc%03d" % self.rng.randrange(1000), "mcc%03d" % self.rng.randrange(1000),
                  "3gppnetwork", "org", "node-%d" % self.rng.randrange(10 ** 6), "example", "com", "a"]
        s = ".".join(self.rng.choice(labels) for _ in range(self.rng.randrange(1, 6)))
        if residue is not None:
            while len(s) % 4 != residue:
                s += self.rng.choice("abcxyz")
        return s

    def uri(self):
        host = ".".join(self.rng.choice(["host", "example", "com", "dra", "node"]) for _ in range(self.rng.randrange(2, 5)))
        s = self.rng.choice(["aaa", "aaas"]) + "://" + host
        if self.rng.random() < 0.5:
            s += ":" + str(self.rng.choice([3868, 5868, 1, 99, 49151, 123]))
        if self.rng.random() < 0.5:
            s += ";transport=" + self.rng.choice(["tcp", "sctp", "udp"])
        if self.rng.random() < 0.5:
            s += ";protocol=" + self.rng.choice(["diameter", "radius"])
        return s

    def u32(self):
        r = self.rng
        return r.choice([0, 1, 255, 256, 65535, 65536, 2 ** 31 - 1, 2 ** 31, 2 ** 32 - 1, r.randrange(2 ** 32)])

    def u64(self):
        r = self.rng
        return r.choice([0, 1, 2 ** 32 - 1, 2 ** 32, 2 ** 63 - 1, r.randrange(2 ** 63), r.randrange(2 ** 32)])

    def instant(self):
        r = self.rng
        c = r.random()
        if c < 0.15:
            return datetime.datetime(r.randrange(1900, 2036), 1, 1)
        if c < 0.25:
            return r.choice([datetime.datetime(1900, 1, 1), T_MAX, T_MAX - datetime.timedelta(seconds=1),
                             datetime.datetime(1900, 1, 1, 0, 0, 1), datetime.datetime(1970, 1, 1),
                             datetime.datetime(2000, 2, 29, 23, 59, 59)])
        return datetime.datetime(1900, 1, 1) + datetime.timedelta(seconds=r.randrange(2 ** 32),
                                                                  microseconds=r.choice([0, 0, 1, 999999]))

    def address(self):
        r = self.rng
        c = r.random()
        if c < 0.3:
            return r.choice(ADDR4)
        if c < 0.55:
            return r.choice(ADDR6)
        if c < 0.8:
            return ".".join(str(r.choice([0, 1, 9, 10, 99, 100, 127, 128, 199, 200, 249, 250, 254, 255, r.randrange(256)]))
                            for _ in range(4))
        import ipaddress
        ip = ipaddress.IPv6Address(r.getrandbits(128) & r.choice([2 ** 128 - 1, (2 ** 128 - 1) ^ (2 ** 96 - 1 << 16), 2 ** 64 - 1 << 64]))
        return r.choice([ip.compressed, ip.exploded])

    # ------------------------------------------------------------------ generic / unknown AVPs
    def generic(self, unknown=True, residue=None):
        r = self.rng
        while True:
            vendor = r.choice([None, None, 10415, 13019, 0, 99999, 2 ** 32 - 1, r.randrange(1, 2 ** 32)])
            code = r.choice([r.randrange(1, 2 ** 32), r.randrange(1, 70000), 2 ** 32 - 1, r.randrange(60000, 65000)])
            if (vendor, code) not in self.known_pairs and not (vendor is None and self._name_known(code)) \
                    and not (vendor == 0 and (None, code) in self.known_pairs):
                break
        flags = r.randrange(256)
        flags = (flags | 0x80) if vendor is not None else (flags & 0x7f)
        form = r.choice(["bytes", "bytes", "str", "int", "none"])
        if form == "bytes":
            data = self.octets(residue, minlen=0) if residue is not None else bytes(r.randrange(256) for _ in range(r.randrange(0, 13)))
            arg, wire = data, data
        elif form == "str":
            s = self.utf8(residue)
            arg, wire = s, s.encode("utf-8")
        elif form == "int":
            n = self.u32()
            arg, wire = n, n.to_bytes(4, "big")
        else:
            arg, wire = None, b""
        kwargs = {"code": code, "vendor_id": vendor, "flags": flags, "data": arg}
        if r.random() < 0.3:
            kwargs["code"] = code.to_bytes(4, "big")
            kwargs["flags"] = bytes([flags])
            if vendor is not None:
                kwargs["vendor_id"] = vendor.to_bytes(4, "big")
        lavp = R.LAvp(code, flags, vendor, wire)
        sig = "generic/%s/r%d/%s" % (form, len(wire) % 4, "V" if vendor is not None else "-")
        return Spec(None, kwargs, lavp, sig)

    def _name_known(self, code):
        # codes that definitions.py names map to attribute names; harmless, but keep unknown AVPs
        # really unknown so that C02 class expectations are unambiguous
        return code in self.rd.get("definitions_codes", ())

    # ------------------------------------------------------------------ dictionary classes
    def avp(self, cls, depth=0, maxdepth=6, residue=None, form=None, with_generic=True):
        """Spec for dictionary class `cls` with an in-domain value."""
        r = self.rng
        row = self.rd["avps"][cls.__name__]
        kind = row["type"]
        code, vendor, flags = row["code"], row["vendor"], row["flags"]
        name = cls.__name__
        members = None
        if name in ("SessionIdAVP", "AcctMultiSessionIdAVP"):
            s = self.identity(residue) + ";%d;%d" % (r.randrange(2 ** 32), r.randrange(2 ** 32))
            if residue is not None:
                while len(s) % 4 != residue:
                    s += "x"
            arg, wire, form = s.encode(), s.encode(), "bytes"
        elif name in ("MsisdnAVP", "StnSrAVP"):
            digits = r.choice("123456789") + "".join(r.choice("0123456789") for _ in range(r.randrange(0, 15)))
            wire = bytes.fromhex(R.ref_tbcd(digits))
            form = form or r.choice(["int", "str", "bytes"])
            arg = {"int": int(digits), "str": digits, "bytes": wire}[form]
        elif name == "FramedIpAddressAVP":
            import ipaddress
            lit = r.choice(ADDR4)
            wire = ipaddress.IPv4Address(lit).packed
            form = form or r.choice(["str", "bytes"])
            arg = lit if form == "str" else wire
        elif kind in ("OctetString",):
            form = form or ("bytes" if name == "EapPayloadAVP" else r.choice(["bytes", "bytes", "str"]))
            if form == "bytes":
                wire = self.octets(residue)
                arg = wire
            else:
                s = self.utf8(residue)
                arg, wire = s, s.encode("utf-8")
        elif kind in ("UTF8String",):
            form = form or r.choice(["str", "str", "bytes"])
            s = self.utf8(residue)
            wire = s.encode("utf-8")
            arg = s if form == "str" else wire
        elif kind == "DiameterIdentity":
            form = form or r.choice(["str", "str", "bytes"])
            s = self.identity(residue)
            wire = s.encode()
            arg = s if form == "str" else wire
        elif kind == "DiameterURI":
            form = form or r.choice(["str", "bytes"])
            s = self.uri()
            wire = s.encode()
            arg = s if form == "str" else wire
        elif kind == "Unsigned32":
            form = form or r.choice(["int", "int", "bytes"])
            n = self.u32()
            wire = n.to_bytes(4, "big")
            arg = n if form == "int" else wire
        elif kind in ("Unsigned64", "Integer64"):
            form = form or r.choice(["int", "int", "bytes"])
            n = self.u64()
            wire = n.to_bytes(8, "big")
            arg = n if form == "int" else wire
        elif kind == "Integer32":
            form = "bytes"
            n = r.choice([0, 1, -1, 2 ** 31 - 1, -2 ** 31, r.randrange(-2 ** 31, 2 ** 31)])
            wire = n.to_bytes(4, "big", signed=True)
            arg = wire
        elif kind == "Enumerated":
            form = "bytes"
            n = r.choice(row["values"])
            wire = n.to_bytes(4, "big", signed=True)
            arg = wire
        elif kind == "Time":
            form = form or r.choice(["datetime", "datetime", "bytes"])
            t = self.instant()
            wire = R.enc_time(t)
            arg = t if form == "datetime" else wire
        elif kind == "Address":
            form = form or r.choice(["str", "str", "bytes"])
            lit = self.address()
            wire = R.enc_address(lit)
            arg = lit if form == "str" else wire
        elif kind == "Grouped":
            form = form or r.choice(["list", "list", "bytes"])
            mspecs = []
            for mname in row["mandatory"].values():
                mspecs.append(self.avp(self.by_name[mname], depth + 1, maxdepth, with_generic=with_generic))
            opts = list(row["optionals"].values())
            r.shuffle(opts)
            for oname in opts[:r.randrange(0, min(4, len(opts)) + 1)]:
                ocls = self.by_name[oname]
                if self.rd["avps"][oname]["type"] == "Grouped" and depth + 1 >= maxdepth:
                    continue
                mspecs.append(self.avp(ocls, depth + 1, maxdepth, with_generic=with_generic))
            if with_generic and r.random() < 0.35:
                mspecs.append(self.generic())
            nmand = len(row["mandatory"])
            mand, rest = mspecs[:nmand], mspecs[nmand:]
            if mspecs and r.random() < 0.25:
                # a member repeated byte for byte (two equal Vendor-Ids, the same offending AVP reported twice): another
                # object with the same encoding, listed and encoded twice
                rest.append(r.choice(mspecs))
                mspecs = mand + rest
                self.twin_members = getattr(self, "twin_members", 0) + 1
            r.shuffle(rest)
            path = None
            if form == "list":
                pk = r.choice(["list", "list", "list+append", "list+extend", "avps="])
                # the constructor needs the mandatory members; the others may come through append()/extend()
                keep = r.randrange(0, len(rest) + 1) if pk in ("list+append", "list+extend") else len(rest)
                first = mand + rest[:keep]
                r.shuffle(first)
                mspecs = first + rest[keep:]
                path = (pk, len(first))
            else:
                r.shuffle(mspecs)
            wire_members = [m.lavp for m in mspecs]
            lavp = R.LAvp(code, flags, vendor, wire_members)
            if form == "list":
                members = mspecs
                arg = None
            else:
                arg = R.avp_data(lavp)
            d = 1 + max([_depth(m) for m in mspecs] or [0])
            sig = "%s/%s/d%d/n%d/%s" % (name, form if path is None else path[0], d, len(mspecs), "V" if vendor is not None else "-")
            return Spec(cls, arg, lavp, sig, members, path)
        else:
            raise AssertionError("unknown kind %r for %s" % (kind, name))
        lavp = R.LAvp(code, flags, vendor, wire)
        sig = "%s/%s/r%d/%s" % (name, form, len(wire) % 4, "V" if vendor is not None else "-")
        return Spec(cls, arg, lavp, sig)

    def any_avp(self, maxdepth=6):
        if self.rng.random() < 0.2:
            return self.generic()
        return self.avp(self.rng.choice(self.classes), maxdepth=maxdepth)

    # ------------------------------------------------------------------ headers
    def header_fields(self):
        r = self.rng

        def pick(bits):
            return r.choice([0, 1, (1 << bits) - 1, (1 << bits) - 2, 1 << (bits - 1), r.randrange(1 << bits)])
        return {"version": pick(8), "flags": pick(8), "code": pick(24), "app_id": pick(32),
                "hbh": pick(32), "e2e": pick(32)}


def _depth(spec):
    if isinstance(spec.lavp.value, list):
        return 1 + max([_depth_l(m) for m in spec.lavp.value] or [0])
    return 0


def _depth_l(lavp):
    if isinstance(lavp.value, list):
        return 1 + max([_depth_l(m) for m in lavp.value] or [0])
    return 0


def lavp_depth(lavp):
    return _depth_l(lavp)
