"""Plumbing shared by every check: worker processes, accumulation, verdicts, evidence, known
findings.  Verdicts are three-valued: violated (exit 1), held (exit 0), inconclusive (exit 2).
"""
import collections
import concurrent.futures
import hashlib
import json
import os
import subprocess
import sys
import tempfile
import time

VERIF = os.path.dirname(os.path.dirname(os.path.abspath(__file__)))
REPO = os.environ.get("BROMELIA_REPO", "/repo")
PY = os.environ.get("BROMELIA_PY", "/venv/bin/python")
DEPS = os.path.join(VERIF, ".deps")
NPROC = int(os.environ.get("VERIF_PROCS", "16"))
MAX_VIOL_PER_KEY = 5


def child_env():
    env = dict(os.environ)
    env["PYTHONHASHSEED"] = "0"
    env["PYTHONPATH"] = os.pathsep.join([REPO, VERIF, DEPS])
    env["PYTHONDONTWRITEBYTECODE"] = "1"
    env["BROMELIA_VERIF"] = "1"
    env["PYTHONWARNINGS"] = "ignore"
    return env


def sig_hash(s):
    return hashlib.blake2b(s.encode() if isinstance(s, str) else s, digest_size=8).hexdigest()


class Acc:
    """Accumulator used inside a worker (and merged in the parent)."""

    def __init__(self):
        self.evaluations = 0
        self.sigs = set()
        self.violations = []          # dicts: key, what, witness
        self.viol_counts = collections.Counter()
        self.samples = []
        self.counters = collections.Counter()
        self.observations = collections.Counter()
        self.inconclusive = []
        self.extra = {}

    def case(self, signature=None, n=1):
        self.evaluations += n
        if signature is not None:
            self.sigs.add(sig_hash(signature) if len(signature) > 16 else signature)

    def sample(self, s, limit=4):
        if len(self.samples) < limit:
            self.samples.append(s)

    def violation(self, key, what, witness):
        self.viol_counts[key] += 1
        if sum(1 for v in self.violations if v["key"] == key) < MAX_VIOL_PER_KEY:
            self.violations.append({"key": key, "what": what, "witness": witness})

    def observe(self, name, n=1):
        self.observations[name] += n

    def to_json(self):
        return {"evaluations": self.evaluations, "sigs": sorted(self.sigs),
                "violations": self.violations, "viol_counts": dict(self.viol_counts),
                "samples": self.samples, "counters": dict(self.counters),
                "observations": dict(self.observations), "inconclusive": self.inconclusive,
                "extra": self.extra}

    def merge_json(self, d):
        self.evaluations += d["evaluations"]
        self.sigs.update(d["sigs"])
        for v in d["violations"]:
            if sum(1 for x in self.violations if x["key"] == v["key"]) < MAX_VIOL_PER_KEY:
                self.violations.append(v)
        self.viol_counts.update(d["viol_counts"])
        for s in d["samples"]:
            self.sample(s, limit=6)
        self.counters.update(d["counters"])
        self.observations.update(d["observations"])
        self.inconclusive.extend(d["inconclusive"])
        for k, v in d.get("extra", {}).items():
            if isinstance(v, (int, float)) and isinstance(self.extra.get(k, 0), (int, float)):
                self.extra[k] = self.extra.get(k, 0) + v
            elif isinstance(v, list):
                self.extra.setdefault(k, [])
                for x in v:
                    if x not in self.extra[k] and len(self.extra[k]) < 400:
                        self.extra[k].append(x)
            elif isinstance(v, dict):
                cur = self.extra.setdefault(k, {})
                for kk, vv in v.items():
                    if isinstance(vv, (int, float)):
                        cur[kk] = cur.get(kk, 0) + vv
                    else:
                        cur[kk] = vv
            else:
                self.extra[k] = v


_NETNS = []


def _netns_available():
    if not _NETNS:
        try:
            r = subprocess.run(["unshare", "-n", "sh", "-c", "ip link set lo up && ip addr show lo | grep -q 127.0.0.1"],
                               stdout=subprocess.DEVNULL, stderr=subprocess.DEVNULL, timeout=10)
            _NETNS.append(r.returncode == 0)
        except Exception:
            _NETNS.append(False)
    return _NETNS[0]


def _run_one(module, func, batch, timeout_s, idx):
    with tempfile.TemporaryDirectory(prefix="bvmw-", dir=os.environ.get("VERIF_TMP")) as td:
        fin = os.path.join(td, "in.json")
        fout = os.path.join(td, "out.json")
        with open(fin, "w") as f:
            json.dump(batch, f)
        cmd = [PY, "-m", "bvm.worker", module, func, fin, fout]
        if isinstance(batch, dict) and batch.get("real") and _netns_available():
            # real-loopback batches get a private network namespace: no port can collide with anything else on the machine
            cmd = ["unshare", "-n", "sh", "-c", 'ip link set lo up 2>/dev/null; exec "$@"', "sh"] + cmd
        t0 = time.time()
        try:
            p = subprocess.run(cmd, env=child_env(), cwd=VERIF, timeout=timeout_s,
                               stdout=subprocess.PIPE, stderr=subprocess.PIPE)
        except subprocess.TimeoutExpired as e:
            tail = (e.stderr or b"")[-1500:].decode("utf-8", "replace")
            return {"_dead": "watchdog %ss batch %d %s" % (timeout_s, idx, tail)}
        if p.returncode != 0 or not os.path.exists(fout):
            return {"_dead": "worker rc=%s batch %d: %s" % (
                p.returncode, idx, p.stderr[-700:].decode("utf-8", "replace"))}
        with open(fout) as f:
            d = json.load(f)
        d["_wall"] = time.time() - t0
        return d


def run_workers(module, func, batches, timeout_s=600, procs=None):
    """Run func(batch) -> Acc.to_json() in one fresh subprocess per batch."""
    acc = Acc()
    procs = procs or NPROC
    with concurrent.futures.ThreadPoolExecutor(max_workers=procs) as ex:
        futs = [ex.submit(_run_one, module, func, b, timeout_s, i) for i, b in enumerate(batches)]
        for f in futs:
            d = f.result()
            if "_dead" in d:
                acc.inconclusive.append(d["_dead"])
                continue
            acc.merge_json(d)
    return acc


# ------------------------------------------------------------------------------ known findings

def load_known():
    path = os.path.join(VERIF, "known_findings.json")
    if not os.path.exists(path):
        return []
    with open(path) as f:
        return json.load(f)["findings"]


def finish(prop_id, tier, seed, level, acc, rule, assumptions, t0, extra_cov=None,
           min_evaluations=1, exhaustive=False, require_counters=()):
    """Classify violations, write witnesses and evidence, print verdict lines, return exit code."""
    known = {(k["property"], k["key"]): k for k in load_known() if k.get("status") == "known"}
    out = os.environ.get("VERIF_OUT_DIR", VERIF)        # scratch runs (mutation validation) write elsewhere
    os.makedirs(os.path.join(out, "witness"), exist_ok=True)
    os.makedirs(os.path.join(out, "evidence"), exist_ok=True)
    new, seen_known = [], collections.OrderedDict()
    for v in acc.violations:
        k = (prop_id, v["key"])
        if k in known:
            seen_known.setdefault(v["key"], v)
        else:
            new.append(v)
    lines = []
    for key, v in seen_known.items():
        lines.append("KNOWN-FINDING: property=%s %s [%s] (%d occurrence(s) this run)" % (
            prop_id, known[(prop_id, key)]["what"], key, acc.viol_counts.get(key, 1)))
    n = 0
    seen_new_keys = collections.Counter()
    for v in new:
        seen_new_keys[v["key"]] += 1
        if seen_new_keys[v["key"]] > 2:
            continue
        path = os.path.join(out, "witness", "%s-%s-%d.json" % (prop_id, v["key"][:60].replace("/", "_"), n))
        n += 1
        with open(path, "w") as f:
            json.dump({"property": prop_id, "key": v["key"], "what": v["what"], "tier": tier,
                       "seed": seed, "witness": v["witness"]}, f, indent=1, default=repr)
        lines.append("VIOLATION property=%s replay=%s" % (prop_id, path))
        lines.append("  mechanism=%s: %s" % (v["key"], str(v["what"])[:600]))
    for c in require_counters:
        if not acc.counters.get(c):
            acc.inconclusive.append("deciding monitor never reached: counter %s is zero" % c)
    if acc.evaluations < min_evaluations:
        acc.inconclusive.append("only %d evaluations (< %d)" % (acc.evaluations, min_evaluations))
    cov = {
        "evaluations": acc.evaluations,
        "distinct_nontrivial": len(acc.sigs),
        "rule": rule,
        "samples": acc.samples[:6] or ["<none>"],
        "exhaustive": bool(exhaustive),
        "counters": dict(acc.counters),
        "observations_not_judged": dict(acc.observations),
        "violations_by_mechanism": dict(acc.viol_counts),
        "known_findings_seen": sorted(seen_known),
        "inconclusive": acc.inconclusive[:20],
    }
    cov.update(acc.extra)
    if extra_cov:
        cov.update(extra_cov)
    ev = {"property_id": prop_id, "tier": tier, "seed": seed, "level": level, "coverage": cov,
          "assumptions": assumptions, "wall_s": round(time.time() - t0, 2),
          "violations": sum(seen_new_keys.values())}
    with open(os.path.join(out, "evidence", prop_id + ".json"), "w") as f:
        json.dump(ev, f, indent=1, default=repr, sort_keys=True)
    for l in lines:
        print(l)
    print("%s tier=%s seed=%d evaluations=%d distinct=%d new_violations=%d known=%s wall=%.1fs" % (
        prop_id, tier, seed, acc.evaluations, cov["distinct_nontrivial"], len(new), sorted(seen_known),
        time.time() - t0))
    if new:
        return 1
    if acc.inconclusive:
        for r in acc.inconclusive[:2]:
            print("INCONCLUSIVE property=%s reason=%s" % (prop_id, " ".join(str(r)[-400:].split())))
        return 2
    return 0


def run_suite_with_monitors(acc, judge_keys):
    """Thorough tiers: the repository's own pinned test-suite is run once with bvm/pytest_monitor.py riding along (wire-format
    oracles on every load()/dump() the tests perform).  Test outcomes are not looked at; only what the monitors saw."""
    out = os.path.join(tempfile.mkdtemp(prefix="bvm-suite-"), "monitor.json")
    cmd = [PY, "-m", "pytest", "-q", "-p", "no:cacheprovider", "-p", "bvm.pytest_monitor", "--timeout=900", "--continue-on-collection-errors"]
    if _netns_available():
        import shlex
        cmd = ["unshare", "-n", "sh", "-c", "ip link set lo up; exec " + " ".join(shlex.quote(c) for c in cmd)]
    env = child_env()
    env["BVM_PYTEST_MONITOR_OUT"] = out
    try:
        subprocess.run(cmd, cwd=REPO, env=env, stdout=subprocess.DEVNULL, stderr=subprocess.DEVNULL, timeout=1500)
    except subprocess.TimeoutExpired:
        acc.extra["suite_monitor"] = "the test-suite run timed out; nothing recorded"
        return
    if not os.path.exists(out):
        acc.extra["suite_monitor"] = "the monitor plugin wrote nothing (plugin not loaded?)"
        return
    with open(out) as f:
        d = json.load(f)
    acc.extra["suite_monitor"] = {k: v for k, v in d.items() if k != "violations"}
    for k in ("loads", "load_redump_checked", "avp_loads", "avp_load_redump_checked", "dumps", "dump_framing_checked", "tests"):
        acc.counters["suite_" + k] += d.get(k, 0)
    acc.evaluations += d.get("load_redump_checked", 0) + d.get("avp_load_redump_checked", 0) + d.get("dump_framing_checked", 0)
    n_known = d.get("by_key", {}).get("known-avp-flags-from-class-default", 0)
    if n_known and "known-avp-flags-from-class-default" in judge_keys:
        acc.violation("known-avp-flags-from-class-default", "seen %d times while the repository's own tests ran" % n_known, {"suite_monitor": True})
    for v in d.get("violations", []):
        if any(v["key"].startswith(j) for j in judge_keys):
            acc.violation("suite-monitor:" + v["key"], "%s (test %s)" % (v["what"], v["test"]), v)


def require_vnet_fidelity(acc):
    """Network checks only: the substituted transport must agree with the real loopback on the scripted call sequence;
    a disagreement makes the run inconclusive (the model is wrong), never violated."""
    try:
        from . import selftest
        d = selftest.compare()
    except BaseException as e:
        d = [("selftest-crashed", repr(e), None)]
    acc.extra["vnet_fidelity_selftest"] = "ok" if not d else ["%s: real=%s fake=%s" % x for x in d]
    if d:
        acc.inconclusive.append("vnet fidelity self-test disagrees with the real loopback: %s" % (d[:3],))
