"""In-process harness for the routing layer (bromelia.bromelia): a real Bromelia object, real Worker objects built
with a fake manager and never started as processes, a stub connection layer that records what would be sent."""
import os
import tempfile

from . import vsched, vnet, node as N

APPS = {"S6a": 16777251, "Gx": 16777238, "Rx": 16777236, "SWx": 16777265, "Gy": 4, "S13": 16777252}
LOCAL_HOST, LOCAL_REALM = "app.local.example", "local.example"


def local_host(i):
    """every connection entry has its own local identity (entry 0 keeps the historical name)"""
    return LOCAL_HOST if i == 0 else "app%d.site%d.example" % (i, i)


def local_realm(i):
    return LOCAL_REALM if i == 0 else "site%d.example" % i


class StubApp:
    """stands for bromelia.setup.Diameter below a Worker"""

    def __init__(self, config, sched):
        self.config = config
        self.sent = []
        self.sched = sched

    def send_message(self, msg):
        self.sent.append((self.sched.steps, msg))

    def send_messages(self, msgs):
        for m in msgs or []:
            self.sent.append((self.sched.steps, m))


class AppHarness:
    def __init__(self, sched, app_names):
        import bromelia.bromelia as BB
        self.sched = sched
        self.BB = BB
        self.net = vnet.Net(sched)
        N.install(sched, self.net)
        BB.SEND_THRESHOLD_TICKER = 0
        BB.PROCESS_TIMER = 0
        BB.Worker.associations.clear()
        del BB.Worker.recv_queues[:]
        self.tmp = tempfile.mkdtemp(prefix="bvm-app-")
        path = os.path.join(self.tmp, "config.yaml")
        lines = ["api_version: v1", "name: bvm-app", "spec:"]
        # an element "Gx+Rx" is ONE connection entry that serves both applications (one worker, one connection)
        for i, entry in enumerate(app_names):
            lines += ["  - mode: client", "    applications:"]
            for name in entry.split("+"):
                lines += ["      - vendor_id: VENDOR_ID_3GPP", "        app_id: DIAMETER_APPLICATION_%s" % name]
            lines += ["    local:", "      hostname: %s" % local_host(i), "      realm: %s" % local_realm(i), "      ip_address: 127.0.0.1", "      port: %d" % (3868 + i),
                      "    peer:", "      hostname: peer%d.remote.example" % i, "      realm: remote.example", "      ip_address: 127.0.0.%d" % (10 + i), "      port: 3868",
                      "    watchdog_timeout: 30"]
        with open(path, "w") as f:
            f.write("\n".join(lines) + "\n")
        self.app = BB.Bromelia(config_file=path)
        self.workers = {}
        self.stubs = {}
        self.entry_workers = []
        for cfg, entry in zip(self.app.configs, app_names):
            stub = StubApp(cfg, sched)
            w = BB.Worker(stub, vsched.FakeManager(sched))
            w.is_open.set()
            self.entry_workers.append((entry, w))
            for name in entry.split("+"):
                self.workers[name] = w
                self.stubs[name] = stub
        self.app.associations = BB.Worker.associations
        self.app.recv_queues = BB.Worker.recv_queues
        for entry, w in self.entry_workers:
            sched.spawn("send_handler-%s" % entry, w.send_handler)

    def cleanup(self):
        import shutil
        shutil.rmtree(self.tmp, ignore_errors=True)

    def sent(self, name=None):
        out = []
        seen = set()
        for n, st in self.stubs.items():
            if (name is None or n == name) and id(st) not in seen:
                seen.add(id(st))
                out += st.sent
        return sorted(out, key=lambda x: x[0])
