"""Deterministic cooperative scheduler over real threads (baton passing).

Exactly one task runs at a time: every task owns a gate semaphore and the running task hands the baton to
the task the strategy picks.  Stand-ins for threading / queue / time are substituted into the bromelia
modules by the harness (bvm.node.install).  Time is virtual: +2 us per scheduling step, and a jump to the
earliest deadline when nothing is runnable.
"""
import collections
import hashlib
import os
import queue as _queue
import random
import sys
import threading
import time as _time
import traceback

_real_Thread = threading.Thread
_real_Sem = threading.Semaphore
threading.stack_size(512 * 1024)
STEP_COST = 2e-6


class ControlException(BaseException):
    pass


class DeadlockError(ControlException):
    pass


class StepBudget(ControlException):
    pass


class WallClock(StepBudget):
    """generous wall-clock watchdog: its firing is inconclusive, never a verdict"""


class Task:
    def __init__(self, sched, name, target=None, args=(), kwargs=None, daemon=None):
        self.sched = sched
        self.name = name or "task"
        self.target = target
        self.args = args
        self.kwargs = kwargs or {}
        self.gate = _real_Sem(0)
        self.pred = None
        self.deadline = None
        self.why = None
        self.done = False
        self.started = False
        self.real = None
        self.exc = None
        self.exc_tb = None
        self.tid = None
        self.daemon = daemon
        self.wake_exc = None
        self.prio = 0.0

    # ---- threading.Thread API
    def start(self):
        s = self.sched
        self.started = True
        self.tid = len(s.tasks)
        self.prio = s.rng.random()
        s.tasks.append(self)
        s.log("task.start", self.name)
        self.real = _real_Thread(target=self._boot, name=self.name, daemon=True)
        self.real.start()
        s.yield_point("thread.start")

    def _boot(self):
        self.gate.acquire()
        self.sched.local.task = self
        try:
            self.target(*self.args, **self.kwargs)
        except ControlException:
            pass
        except BaseException as e:
            self.exc = e
            self.exc_tb = traceback.format_exc()
            self.sched.on_task_death(self, e)
        finally:
            self.done = True
            self.sched.log("task.end", self.name)
            self.sched.switch(dying=True)

    def join(self, timeout=None):
        self.sched.block_until(lambda: self.done, timeout, "join:" + self.name)

    def is_alive(self):
        return self.started and not self.done

    @property
    def ident(self):
        return self.tid

    def __repr__(self):
        return "<Task %s%s>" % (self.name, " done" if self.done else "")


class Sched:
    def __init__(self, seed=0, strategy="rr", p=0.2, pct_depth=3, pct_horizon=4000, max_steps=400_000,
                 replay=None, log_len=400, wall_s=60):
        self.rng = random.Random(seed)
        self.seed = seed
        self.strategy = strategy
        self.p = p
        self.tasks = []
        self.now = 0.0
        self.local = threading.local()
        self.steps = 0
        self.switches = 0
        self.max_steps = max_steps
        self.parks = []             # [{"task": name, "nth": k, "release": callable, "timeout": virtual seconds}]
        self.line_count = {}
        self.parked_at = []
        self.events = collections.deque(maxlen=log_len)
        self.deaths = []
        self.preempt_enabled = True
        self.choices = []           # recorded decisions (index into the eligible list) where > 1 was eligible
        self.replay = list(replay) if replay is not None else None
        self.h = hashlib.blake2b(digest_size=8)
        self.nontrivial_choices = 0
        self.yield_kinds = collections.Counter()
        self.pairs = set()
        self.line_events = 0
        self.rr_next = 0
        self.pct_points = sorted(self.rng.randrange(1, pct_horizon) for _ in range(max(0, pct_depth - 1))) if strategy == "pct" else []
        self.locks = []
        self.main = Task(self, "driver")
        self.main.started = True
        self.main.tid = 0
        self.main.prio = 2.0 if strategy != "pct" else self.rng.random()
        self.tasks.append(self.main)
        self.local.task = self.main
        self.current = self.main
        self.wall_deadline = _time.time() + wall_s if wall_s else None
        self.hooks = []             # callables run at every scheduling step (monitors), preemption disabled

    # ------------------------------------------------------------------ bookkeeping
    def cur(self):
        return getattr(self.local, "task", None)

    def log(self, kind, detail=None):
        self.events.append((self.steps, round(self.now, 6), self.current.name if self.current else None, kind, detail))

    def on_task_death(self, task, e):
        held = [l.name for l in self.locks if l.owner is task]
        self.deaths.append({"task": task.name, "exc": repr(e), "type": type(e).__name__, "traceback": task.exc_tb[-1500:],
                            "locks_held": held, "step": self.steps})
        self.log("task.death", "%s %r" % (task.name, e))

    def schedule_hash(self):
        return self.h.hexdigest()

    def stacks(self):
        out = {}
        frames = sys._current_frames()
        for t in self.tasks:
            if t.done or t.real is None:
                continue
            f = frames.get(t.real.ident)
            if f is not None:
                out[t.name] = [l.strip() for l in traceback.format_stack(f)[-6:]]
        return out

    def blocked_report(self):
        return ["%s:%s" % (t.name, "done" if t.done else (t.why or "runnable")) for t in self.tasks]

    # ------------------------------------------------------------------ core
    def eligible(self, t):
        if t.done or not t.started:
            return False
        if t.pred is None and t.deadline is None:
            return True
        if t.pred is not None:
            old = self.preempt_enabled
            self.preempt_enabled = False
            try:
                if t.pred():
                    return True
            finally:
                self.preempt_enabled = old
        if t.deadline is not None and self.now >= t.deadline:
            return True
        return False

    def _choose(self, el, me):
        if len(el) == 1:
            return el[0]
        self.nontrivial_choices += 1
        if self.replay is not None:
            i = self.replay.pop(0) if self.replay else 0
            i = min(i, len(el) - 1)
        elif self.strategy == "rr":
            # true round robin over task ids, starting after the current task
            base = (me.tid if me is not None else 0)
            i = min(range(len(el)), key=lambda k: (el[k].tid - base - 1) % 10_000)
        elif self.strategy == "pct":
            i = max(range(len(el)), key=lambda k: el[k].prio)
        else:   # rw
            if me in el and self.rng.random() >= self.p:
                i = el.index(me)
            else:
                i = self.rng.randrange(len(el))
        self.choices.append(i)
        return el[i]

    def pick(self, me):
        while True:
            el = [t for t in self.tasks if self.eligible(t)]
            if el:
                return self._choose(el, me)
            dl = [t.deadline for t in self.tasks if t.started and not t.done and t.deadline is not None]
            if not dl:
                raise DeadlockError("no runnable task: " + ", ".join(self.blocked_report()))
            self.now = max(self.now, min(dl))

    def shutdown(self):
        """End of a scenario: unwind every parked task (each raises ControlException at its next scheduling call)."""
        self.killing = True
        self.preempt_enabled = True
        for t in self.tasks:
            if t is not self.main and t.started and not t.done:
                t.wake_exc = ControlException("shutdown")
                t.gate.release()
        for t in self.tasks:
            if t.real is not None:
                t.real.join(0.5)

    killing = False
    STUCK_S = 40

    def switch(self, dying=False, kind="?"):
        me = self.cur()
        if self.killing:
            if dying:
                return
            raise ControlException("shutdown")
        self.steps += 1
        self.now += STEP_COST
        if self.pct_points and self.steps >= self.pct_points[0]:
            self.pct_points.pop(0)
            if me is not None:
                me.prio = -self.steps       # lowest so far
        if self.hooks:
            old = self.preempt_enabled
            self.preempt_enabled = False
            try:
                for h in self.hooks:
                    h(self)
            finally:
                self.preempt_enabled = old
        try:
            if self.steps > self.max_steps:
                self.max_steps += 10 ** 9
                raise StepBudget("step budget exhausted at virtual time %.3f" % self.now)
            if self.wall_deadline is not None and (self.steps & 255) == 0 and _time.time() > self.wall_deadline:
                self.wall_deadline = None
                raise WallClock("wall-clock watchdog fired at step %d, virtual time %.3f" % (self.steps, self.now))
            nxt = self.pick(None if dying else me)
        except ControlException as e:
            if me is self.main and not dying:
                raise
            self.main.pred = None
            self.main.deadline = None
            self.main.wake_exc = e
            nxt = self.main
        if nxt is me and not dying:
            return
        self.switches += 1
        self.h.update(("%d:%s;" % (nxt.tid, kind)).encode())
        if me is not None and not dying and len(self.pairs) < 5000:
            self.pairs.add((me.tid, kind, nxt.tid))
        self.current = nxt
        nxt.gate.release()
        if not dying:
            if me is self.main:
                # the driver also watches the baton: a task that keeps it for STUCK_S wall seconds is blocked inside a real
                # (not substituted) blocking primitive - nothing the scheduler can schedule around; inconclusive, with the stack
                t_wait = _time.monotonic()
                while not me.gate.acquire(timeout=self.STUCK_S):
                    holder = self.current
                    if holder is me:
                        continue
                    # on an overloaded machine (load far above the core count) a runnable thread may simply not have been given
                    # a core: the allowance grows with the load before the baton counts as stuck
                    try:
                        allowance = self.STUCK_S * max(1.0, os.getloadavg()[0] / (os.cpu_count() or 1))
                    except OSError:
                        allowance = self.STUCK_S
                    if _time.monotonic() - t_wait < allowance:
                        continue
                    self.killing = True
                    self.current = me
                    where = self.stacks().get(getattr(holder, "name", None), [])
                    raise WallClock("task %s kept the baton for %d wall seconds (blocked outside the scheduler's stand-ins): %s" % (
                        getattr(holder, "name", "?"), self.STUCK_S, " | ".join(where[-3:])))
            else:
                me.gate.acquire()
            exc = me.wake_exc
            if exc is not None:
                me.wake_exc = None
                raise exc

    def yield_point(self, kind=""):
        me = self.cur()
        if me is None or not self.preempt_enabled:
            return
        self.yield_kinds[kind] += 1
        self.switch(kind=kind)

    def preempt_point(self, kind="line"):
        """Y2/Y3 yield point (source line / instruction): only the randomised strategies preempt here."""
        me = self.cur()
        if me is None or not self.preempt_enabled:
            return
        self.line_events += 1
        if self.parks:
            # directed windows: "this task is descheduled at its n-th source line until <condition>" - a schedule every
            # preemptive system can produce, placed deliberately instead of waiting for the random walk to find it
            for pk in self.parks:
                if pk.get("done") or (pk["task"] is not me if not isinstance(pk["task"], str) else pk["task"] != me.name):
                    continue
                if pk.get("funcs") and kind.split(":")[1] not in pk["funcs"]:
                    continue            # this park counts only the lines of the named functions
                pk["count"] = pk.get("count", 0) + 1        # lines of this task since the park was set up
                if pk["count"] > pk["nth"]:
                    pk["done"] = True
                    pk["at"] = kind
                    self.parked_at.append((me.name, kind))
                    self.block_until(pk["release"], pk.get("timeout", 30.0), "parked")
        if self.strategy == "rr":
            return
        if self.strategy == "rw" and self.rng.random() >= self.p:
            return
        self.switch(kind=kind)

    def block_until(self, pred, timeout=None, why=""):
        me = self.cur()
        me.pred = pred
        me.why = why
        me.deadline = None if timeout is None else self.now + timeout
        try:
            self.switch(kind="block:" + why.split(":")[0])
            old = self.preempt_enabled
            self.preempt_enabled = False
            try:
                ok = pred() if pred is not None else False
            finally:
                self.preempt_enabled = old
        finally:
            me.pred = None
            me.deadline = None
            me.why = None
        return ok

    def sleep(self, dt):
        me = self.cur()
        me.pred = None if dt <= 0 else (lambda: False)
        me.deadline = self.now + max(dt, 0)
        me.why = "sleep"
        try:
            self.switch(kind="sleep")
        finally:
            me.pred = None
            me.deadline = None
            me.why = None

    # ------------------------------------------------------------------ driver helpers
    def run_until(self, pred, timeout, why="driver"):
        """Driver: let the system run until pred() or `timeout` virtual seconds pass. Returns bool."""
        return self.block_until(pred, timeout, why)

    def spawn(self, name, target, *args):
        t = Task(self, name, target, args)
        t.start()
        return t

    def live_tasks(self):
        return [t for t in self.tasks if t is not self.main and t.started and not t.done]

    def coverage(self):
        return {"steps": self.steps, "switches": self.switches, "line_events": self.line_events,
                "nontrivial_choices": self.nontrivial_choices, "schedule": self.schedule_hash()}


# ---------------------------------------------------------------------- stand-ins

class VLock:
    def __init__(self, sched, name="lock"):
        self.s = sched
        self.owner = None
        self.name = name
        sched.locks.append(self)

    def acquire(self, blocking=True, timeout=-1):
        s = self.s
        s.yield_point("lock.acquire")
        if not blocking:
            if self.owner is None:
                self.owner = s.cur()
                return True
            return False
        ok = s.block_until(lambda: self.owner is None, None if timeout in (-1, None) else timeout, "lock:" + self.name)
        if ok:
            self.owner = s.cur()
        return ok

    def release(self):
        if self.owner is None:
            raise RuntimeError("release unlocked lock")
        self.owner = None
        self.s.yield_point("lock.release")

    def locked(self):
        return self.owner is not None

    def __enter__(self):
        self.acquire()
        return self

    def __exit__(self, *a):
        self.release()


class VRLock(VLock):
    """re-entrant: the owning task may acquire again; released when the count returns to zero"""

    def __init__(self, sched, name="rlock"):
        VLock.__init__(self, sched, name)
        self.count = 0

    def acquire(self, blocking=True, timeout=-1):
        if self.owner is not None and self.owner is self.s.cur():
            self.s.yield_point("lock.acquire")
            self.count += 1
            return True
        ok = VLock.acquire(self, blocking, timeout)
        if ok:
            self.count = 1
        return ok

    def release(self):
        if self.owner is None or self.owner is not self.s.cur():
            raise RuntimeError("cannot release un-acquired lock")
        self.count -= 1
        if self.count == 0:
            VLock.release(self)


class VSemaphore:
    def __init__(self, sched, value=1, bounded=False):
        self.s = sched
        self.value = value
        self.initial = value
        self.bounded = bounded

    def acquire(self, blocking=True, timeout=None):
        self.s.yield_point("sem.acquire")
        if self.value > 0:
            self.value -= 1
            return True
        if not blocking:
            return False
        if self.s.block_until(lambda: self.value > 0, timeout, "semaphore"):
            self.value -= 1
            return True
        return False

    def release(self, n=1):
        if self.bounded and self.value + n > self.initial:
            raise ValueError("Semaphore released too many times")
        self.value += n
        self.s.yield_point("sem.release")

    __enter__ = acquire

    def __exit__(self, *a):
        self.release()


class VCondition:
    def __init__(self, sched, lock=None):
        self.s = sched
        self.lock = lock if lock is not None else VRLock(sched, "condition")
        self.tickets = 0
        self.acquire, self.release = self.lock.acquire, self.lock.release

    def __enter__(self):
        self.lock.acquire()
        return self

    def __exit__(self, *a):
        self.lock.release()

    def wait(self, timeout=None):
        mine = self.tickets
        saved = getattr(self.lock, "count", 1)
        for _ in range(saved):
            self.lock.release()
        ok = self.s.block_until(lambda: self.tickets > mine, timeout, "condition")
        for _ in range(saved):
            self.lock.acquire()
        return ok

    def wait_for(self, predicate, timeout=None):
        end = None if timeout is None else self.s.now + timeout
        while not predicate():
            left = None if end is None else end - self.s.now
            if left is not None and left <= 0:
                break
            self.wait(left)
        return predicate()

    def notify(self, n=1):
        self.tickets += 1            # (every waiter that started before this call is released: a superset of what
        self.s.yield_point("condition.notify")   # threading.Condition guarantees, never fewer wake-ups)

    notify_all = notify
    notifyAll = notify


class VEvent:
    def __init__(self, sched):
        self.s = sched
        self.flag = False

    def is_set(self):
        return self.flag

    def set(self):
        self.flag = True
        self.s.yield_point("event.set")

    def clear(self):
        self.flag = False
        self.s.yield_point("event.clear")

    def wait(self, timeout=None):
        self.s.yield_point("event.wait")
        if self.flag:
            return True
        return self.s.block_until(lambda: self.flag, timeout, "event")


class VQueue:
    def __init__(self, sched, maxsize=0):
        self.s = sched
        self.q = collections.deque()
        self.maxsize = maxsize

    def put(self, item, block=True, timeout=None):
        self.s.yield_point("queue.put")
        if self.maxsize and self.maxsize > 0 and len(self.q) >= self.maxsize:
            # a bounded queue: put() blocks while it is full, as queue.Queue does
            if not block:
                raise _queue.Full
            if not self.s.block_until(lambda: len(self.q) < self.maxsize, timeout, "queue-full"):
                raise _queue.Full
        self.q.append(item)

    def full(self):
        return bool(self.maxsize) and self.maxsize > 0 and len(self.q) >= self.maxsize

    def get(self, block=True, timeout=None):
        self.s.yield_point("queue.get")
        if not self.q:
            if not block:
                raise _queue.Empty
            if not self.s.block_until(lambda: bool(self.q), timeout, "queue"):
                raise _queue.Empty
        return self.q.popleft()

    def empty(self):
        return not self.q

    def qsize(self):
        return len(self.q)

    @property
    def queue(self):        # queue.Queue exposes its deque under this name
        return self.q


class VLifoQueue(VQueue):
    def get(self, block=True, timeout=None):
        self.s.yield_point("queue.get")
        if not self.q:
            if not block:
                raise _queue.Empty
            if not self.s.block_until(lambda: bool(self.q), timeout, "queue"):
                raise _queue.Empty
        return self.q.pop()


class VBarrier:
    def __init__(self, sched, parties, action=None, timeout=None):
        self.s = sched
        self.parties = parties
        self.n = 0
        self.gen = 0
        self.broken = False

    def wait(self, timeout=None):
        s = self.s
        s.yield_point("barrier.wait")
        if self.broken:
            raise threading.BrokenBarrierError
        gen = self.gen
        self.n += 1
        if self.n >= self.parties:
            self.n = 0
            self.gen += 1
            return 0
        ok = s.block_until(lambda: self.gen != gen or self.broken, timeout, "barrier")
        if self.gen != gen and not self.broken:
            return 1
        if not ok:
            self.broken = True
        raise threading.BrokenBarrierError

    def reset(self):
        self.n = 0
        self.broken = False
        self.gen += 1
        self.s.yield_point("barrier.reset")


class VThreading:
    """stand-in for the `threading` module inside SUT modules"""

    BrokenBarrierError = threading.BrokenBarrierError

    def __init__(self, sched):
        self.s = sched

    def Thread(self, group=None, target=None, name=None, args=(), kwargs=None, daemon=None):
        return Task(self.s, name or "thread", target, args, kwargs, daemon)

    def Lock(self):
        return VLock(self.s)

    def RLock(self):
        return VRLock(self.s)

    def Semaphore(self, value=1):
        return VSemaphore(self.s, value)

    def BoundedSemaphore(self, value=1):
        return VSemaphore(self.s, value, bounded=True)

    def Condition(self, lock=None):
        return VCondition(self.s, lock)

    def Timer(self, interval, function, args=None, kwargs=None):
        s = self.s

        def run():
            s.sleep(interval)
            function(*(args or ()), **(kwargs or {}))
        return Task(s, "timer", run, (), None, True)

    def get_ident(self):
        return id(self.s.cur())

    def main_thread(self):
        return self.s.tasks[0] if self.s.tasks else None

    def Event(self):
        return VEvent(self.s)

    def Barrier(self, parties, action=None, timeout=None):
        return VBarrier(self.s, parties, action, timeout)

    def current_thread(self):
        return self.s.cur()

    def enumerate(self):
        return [t for t in self.s.tasks if t.started and not t.done]


class VQueueMod:
    Empty = _queue.Empty
    Full = _queue.Full

    def __init__(self, sched):
        self.s = sched

    def Queue(self, maxsize=0):
        return VQueue(self.s, maxsize)

    def SimpleQueue(self):
        return VQueue(self.s)

    def LifoQueue(self, maxsize=0):
        return VLifoQueue(self.s, maxsize)


class VTime:
    def __init__(self, sched):
        self.s = sched

    def sleep(self, dt):
        self.s.sleep(dt)

    def time(self):
        return 1_700_000_000 + self.s.now

    def monotonic(self):
        return self.s.now


class FakeManager:
    """stand-in for multiprocessing.Manager() handed to bromelia.bromelia.Worker"""

    def __init__(self, sched):
        self.s = sched

    def Event(self):
        return VEvent(self.s)

    def Queue(self):
        return VQueue(self.s)

    def Lock(self):
        return VLock(self.s, "manager-lock")


# ---------------------------------------------------------------------- line-level preemption (Y2)

class LinePreemption:
    TOOL = 3

    def __init__(self, sched, code_objects=None, files=None):
        self.s = sched
        self.files = set(files or ())
        self.codes = list(code_objects or ())
        self.active = False

    def __enter__(self):
        mon = sys.monitoring
        try:
            mon.use_tool_id(self.TOOL, "bvm-vsched")
        except ValueError:
            pass
        s = self.s

        def on_line(code, line):
            if self.files and code.co_filename not in self.files:
                return mon.DISABLE
            s.preempt_point("line:%s:%d" % (code.co_name, line))
            return None
        mon.register_callback(self.TOOL, mon.events.LINE, on_line)
        if self.codes:
            for c in self.codes:
                mon.set_local_events(self.TOOL, c, mon.events.LINE)
        else:
            mon.set_events(self.TOOL, mon.events.LINE)
        self.active = True
        return self

    def __exit__(self, *a):
        mon = sys.monitoring
        try:
            if self.codes:
                for c in self.codes:
                    mon.set_local_events(self.TOOL, c, 0)
            else:
                mon.set_events(self.TOOL, 0)
            mon.register_callback(self.TOOL, mon.events.LINE, None)
            mon.free_tool_id(self.TOOL)
        except Exception:
            pass
        self.active = False
