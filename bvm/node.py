"""Node harness: a real bromelia.Diameter object run under vsched + vnet, with the driver task playing the peer."""
import sys

from . import refcodec as R
from . import vnet, vsched
from .guards import DecoderGuard, NonTerminatingDecode

LOCAL = ("client.network", "network")
PEER = ("server.peer.example", "peer.example")      # a realm of its own: the node's and the peer's identity must never be interchangeable
PEER_ADDR = ("127.0.0.2", 3870)      # another port than the local one, for the same reason
LOCAL_ADDR = ("127.0.0.1", 3868)

_saved = {}


def sut_modules():
    import bromelia.transport as T
    import bromelia.setup as S
    import bromelia.statemachine as SM
    import bromelia.bromelia as BB
    return T, S, SM, BB


def install(sched, net):
    """Substitute the cooperative stand-ins into the threaded bromelia modules (no source edits)."""
    T, S, SM, BB = sut_modules()
    if not _saved:
        _saved.update({"T.threading": T.threading, "T.selectors": T.selectors, "T.socket": T.socket,
                       "S.threading": S.threading, "S.queue": S.queue, "S.time": S.time,
                       "SM.threading": SM.threading, "SM.time": SM.time, "BB.threading": BB.threading, "BB.time": BB.time})
        # a mutation that changes the import style (from threading import Thread) would escape the scheduler: refuse to run
        import threading as _th
        import queue as _q
        for m in (T, S, SM, BB):
            for k, v in vars(m).items():
                if v in (_th.Thread, _th.Lock, _th.Event, _q.Queue, _th.Barrier, _th.Semaphore, _th.Condition, _th.RLock, _th.Timer):
                    raise RuntimeError("module %s binds the real primitive %s by name; the scheduler cannot control it" % (m.__name__, k))
    vt = vsched.VThreading(sched)
    T.threading = vt
    S.threading = vt
    SM.threading = vt
    BB.threading = vt
    S.queue = vsched.VQueueMod(sched)
    tm = vsched.VTime(sched)
    S.time = tm
    SM.time = tm
    BB.time = tm
    T.selectors = vnet.VSelectorsMod(net)
    T.socket = vnet.VSocketMod(net)


def sut_files():
    return {m.__file__ for m in sut_modules()}


# ------------------------------------------------------------------------------- reference-built peer messages

def u32(n):
    return n.to_bytes(4, "big")


def avp(code, data, flags=0x40, vendor=None):
    return R.LAvp(code, flags | (0x80 if vendor is not None else 0), vendor, data)


def origin(host, realm):
    return [avp(264, host if isinstance(host, bytes) else host.encode()), avp(296, realm if isinstance(realm, bytes) else realm.encode())]


def cer(host=PEER[0], realm=PEER[1], hbh=1, e2e=1, flags=0x80, apps=(), extra=()):
    a = origin(host, realm) + [avp(257, b"\x00\x01\x7f\x00\x00\x02"), avp(266, u32(0)), avp(269, b"peer-sim", flags=0)]
    for app in apps:
        a.append(avp(258, u32(app)))
    return R.LMsg(1, flags, 257, 0, hbh, e2e, a + list(extra))


def cea(host=PEER[0], realm=PEER[1], hbh=1, e2e=1, result=2001, flags=0x00, apps=(), extra=()):
    a = [avp(268, u32(result))] + origin(host, realm) + [avp(257, b"\x00\x01\x7f\x00\x00\x02"), avp(266, u32(0)), avp(269, b"peer-sim", flags=0)]
    for app in apps:
        a.append(avp(258, u32(app)))
    return R.LMsg(1, flags, 257, 0, hbh, e2e, a + list(extra))


def dwr(host=PEER[0], realm=PEER[1], hbh=2, e2e=2, flags=0x80, extra=()):
    return R.LMsg(1, flags, 280, 0, hbh, e2e, origin(host, realm) + list(extra))


def dwa(host=PEER[0], realm=PEER[1], hbh=2, e2e=2, result=2001, extra=()):
    return R.LMsg(1, 0, 280, 0, hbh, e2e, [avp(268, u32(result))] + origin(host, realm) + list(extra))


def origin_state_id(n=1600000000):
    """the optional Origin-State-Id AVP of CER/CEA/DWR/DWA (RFC 6733 5.3.1, 5.3.2, 5.5.1, 5.5.2)"""
    return avp(278, u32(n))


def dpr(host=PEER[0], realm=PEER[1], hbh=3, e2e=3, cause=0):
    return R.LMsg(1, 0x80, 282, 0, hbh, e2e, origin(host, realm) + [avp(273, u32(cause))])


def dpa(host=PEER[0], realm=PEER[1], hbh=3, e2e=3, result=2001):
    return R.LMsg(1, 0, 282, 0, hbh, e2e, [avp(268, u32(result))] + origin(host, realm))


def app_request(seq, app=16777251, code=316, size=0, dest_host=None, dest_realm=None, host=PEER[0], realm=PEER[1]):
    """Application request with unique ids: Hop-by-Hop = seq, a Session-Id and a marker AVP carrying the index."""
    a = [avp(263, ("%s;%d;%d" % (host, 7, seq)).encode())] + origin(host, realm)
    if dest_host is not None:
        a.append(avp(293, dest_host.encode()))
    if dest_realm is not None:
        a.append(avp(283, dest_realm.encode()))
    a.append(avp(99990, u32(seq) + bytes((seq * 7 + i) & 0xff for i in range(size)), flags=0))
    return R.LMsg(1, 0xc0, code, app, seq, 0x10000000 + seq, a)


def app_answer(seq, app=16777251, code=316, host=PEER[0], realm=PEER[1], result=2001, size=0):
    a = [avp(263, ("%s;%d;%d" % (host, 8, seq)).encode()), avp(268, u32(result))] + origin(host, realm)
    a.append(avp(99990, u32(seq) + bytes((seq * 5 + i) & 0xff for i in range(size)), flags=0))
    return R.LMsg(1, 0x40, code, app, seq, 0x20000000 + seq, a)


def marker_of(lmsg):
    for a in lmsg.avps:
        if a.code == 99990 and a.vendor is None and len(a.value) >= 4:
            return int.from_bytes(a.value[:4], "big")
    return None


BASE_CODES = {257: "CE", 280: "DW", 282: "DP"}


def name_of(lm):
    b = BASE_CODES.get(lm.code)
    if b is None:
        return "APP-R" if lm.flags & 0x80 else "APP-A"
    return b + ("R" if lm.flags & 0x80 else "A")


# ------------------------------------------------------------------------------- the node

class Scenario:
    """One execution: scheduler + net + a node + the scripted peer.  Use as a context manager."""

    def __init__(self, seed=0, strategy="rr", p=0.2, role="client", apps=(), watchdog=30, lines=False,
                 max_steps=400_000, replay=None, pct_depth=3, guard=True, wall_s=60, transport="TCP"):
        self.sched = vsched.Sched(seed=seed, strategy=strategy, p=p, max_steps=max_steps, replay=replay, pct_depth=pct_depth, wall_s=wall_s)
        self.net = vnet.Net(self.sched)
        self.role = role
        self.transport = transport
        self.apps = list(apps)
        self.watchdog = watchdog
        self.lines = lines
        self.node = None
        self.peer_sock = None       # harness side of the connection
        self.node_sock = None       # node side
        self.lsock = None
        self.emitted_buf = bytearray()
        self.emitted_msgs = []
        self.transitions = []
        self.loads = []
        self.guard = DecoderGuard() if guard else None
        self._lp = None
        self.starter = None
        self.client_start_in_task = False
        self.start_result = None
        self.local_addr, self.peer_addr = LOCAL_ADDR, PEER_ADDR

    @classmethod
    def twin_of(cls, sc, peer_addr=("127.0.0.3", 3871), local_addr=None):
        """A second node in the same execution (same scheduler, same substituted network, same local identity by default):
        shares everything that is installed globally; has its own node object, sockets and emitted stream."""
        t = cls.__new__(cls)
        t.__dict__.update({k: v for k, v in sc.__dict__.items()})
        t.node = t.peer_sock = t.node_sock = t.lsock = t.starter = None
        t.emitted_buf = bytearray()
        t.emitted_msgs = []
        t.start_result = None
        t.peer_addr = peer_addr
        t.local_addr = local_addr or sc.local_addr
        return t

    def __enter__(self):
        install(self.sched, self.net)
        if self.transport == "SCTP":
            vnet.install_fake_sctp(self.net)
        if self.guard is not None:
            self.guard.install()
            self.guard.limit = 200_000      # a generous absolute bound inside scenarios (inputs are small)
        if self.lines:
            self._lp = vsched.LinePreemption(self.sched, files=sut_files()).__enter__()
        self._wrap()
        return self

    def __exit__(self, *a):
        if self._lp is not None:
            self._lp.__exit__()
        self._unwrap()
        self.sched.shutdown()
        return False

    # -- observation hooks applied from outside (class attributes), removed afterwards
    def _wrap(self):
        from bromelia.statemachine import PeerStateMachine
        sc = self
        self._orig_gns = PeerStateMachine.get_next_state

        def get_next_state(psm, next_state):
            cur = psm.current_state.name
            if cur != next_state:
                sc.transitions.append((sc.sched.steps, cur, next_state))
                sc.sched.log("transition", "%s->%s" % (cur, next_state))
            return sc._orig_gns(psm, next_state)
        PeerStateMachine.get_next_state = get_next_state
        from bromelia.statemachine import State
        self._orig_gm = State.get_message
        self.consumed = []          # (state name, command code, is_request, hop-by-hop) in the order the state machine took them

        def get_message(st):
            m = sc._orig_gm(st)
            try:
                sc.consumed.append((type(st).__name__, m.header.get_command_code(), m.header.is_request(), m.header.get_hop_by_hop(), sc.sched.steps))
            except BaseException:
                sc.consumed.append((type(st).__name__, None, None, None, sc.sched.steps))
            return m
        State.get_message = get_message

    def _unwrap(self):
        from bromelia.statemachine import PeerStateMachine, State
        PeerStateMachine.get_next_state = self._orig_gns
        State.get_message = self._orig_gm

    def config(self):
        local, peer = (LOCAL, PEER)
        laddr, paddr = self.local_addr, self.peer_addr
        return {"MODE": "CLIENT" if self.role == "client" else "SERVER", "TRANSPORT_TYPE": self.transport,
                "APPLICATIONS": [{"vendor_id": b"\x00\x00\x28\xaf", "app_id": u32(a)} for a in self.apps],
                "LOCAL_NODE_HOSTNAME": local[0], "LOCAL_NODE_REALM": local[1],
                "LOCAL_NODE_IP_ADDRESS": laddr[0], "LOCAL_NODE_PORT": laddr[1],
                "PEER_NODE_HOSTNAME": peer[0], "PEER_NODE_REALM": peer[1],
                "PEER_NODE_IP_ADDRESS": paddr[0], "PEER_NODE_PORT": paddr[1],
                "WATCHDOG_TIMEOUT": self.watchdog}

    def make_node(self):
        from bromelia.setup import Diameter
        self.node = Diameter(config=self.config())
        return self.node

    # -- connection set-up -------------------------------------------------------
    def listen(self):
        """client role: the harness peer listens"""
        self.lsock = vnet.FakeSocket(self.net, harness_side=True)
        self.lsock.bind(self.peer_addr)
        self.lsock.listen()

    def start_node(self):
        """Start the node.  A server blocks in accept inside start(), so it is started from its own task."""
        if self.node is None:
            self.make_node()
        if self.role == "client" and not self.client_start_in_task:
            self.node.start()
        else:
            # (client_start_in_task: start() runs in a task of its own, so that the scheduler can interleave it with the
            # state-machine thread it has just started; the call's outcome is kept in start_result)
            def run_start():
                try:
                    self.node.start()
                    self.start_result = "returned"
                except vsched.ControlException:
                    raise
                except BaseException as ex:
                    self.start_result = ex
            self.starter = self.sched.spawn("starter", run_start)

    def connect_transport(self, timeout=10):
        s = self.sched
        if self.role == "client":
            if not s.run_until(lambda: bool(self.lsock.backlog), timeout, "peer-accept"):
                return False
            self.peer_sock = self.lsock.backlog.pop(0)
            self.node_sock = self.peer_sock.peer
        else:
            if not s.run_until(lambda: self.local_addr in self.net.listeners, timeout, "node-listen"):
                return False
            self.peer_sock = vnet.FakeSocket(self.net, harness_side=True)
            self.peer_sock.connect_ex(self.local_addr)
            self.node_sock = self.peer_sock.peer
        return True

    def open(self, timeout=20):
        """Drive the node to Open through a real capabilities exchange. Returns True on success."""
        s = self.sched
        if self.role == "client":
            if self.lsock is None:
                self.listen()
            self.start_node()
            if not self.connect_transport():
                return False
            if not s.run_until(lambda: self._have_emitted(1), timeout, "wait-cer"):
                return False
            m = self.read_emitted()
            if not m or name_of(m[0]) != "CER":
                return False
            self.inject(R.encode(cea(hbh=m[0].hbh, e2e=m[0].e2e, apps=self.apps)))
        else:
            self.start_node()
            if not self.connect_transport():
                return False
            self.inject(R.encode(cer(apps=self.apps, hbh=11, e2e=12)))
            if not s.run_until(lambda: self._have_emitted(1), timeout, "wait-cea"):
                return False
            m = self.read_emitted()
            if not m or name_of(m[0]) != "CEA":
                return False
        return s.run_until(lambda: self.node.is_open(), timeout, "wait-open")

    # -- traffic ---------------------------------------------------------------------
    def inject(self, data, chunks=None, settle=True, gap=None):
        """Deliver bytes to the node's socket. chunks: list of chunk sizes (the remainder is delivered last); gap: virtual
        seconds of silence after each segment has been read (a slow or stalled sender)."""
        s = self.sched
        data = bytes(data)
        if not chunks:
            s.preempt_enabled = False
            self.node_sock.rx += data
            s.preempt_enabled = True
            s.log("inject", len(data))
            return
        i = 0
        sizes = list(chunks)
        while i < len(data):
            k = sizes.pop(0) if sizes else len(data) - i
            k = max(1, k)
            s.preempt_enabled = False
            self.node_sock.rx += data[i:i + k]
            s.preempt_enabled = True
            s.log("inject", k)
            i += k
            if settle and i < len(data):
                # let the node read this segment before the next one arrives
                s.run_until(lambda: not self.node_sock.rx, 2.0, "segment-consumed")
                if gap:
                    s.run_until(lambda: False, gap, "segment-gap")

    def _pull(self):
        if self.peer_sock is not None and self.peer_sock.rx:
            self.emitted_buf += self.peer_sock.rx
            del self.peer_sock.rx[:]

    def _have_emitted(self, n):
        self._pull()
        msgs, _ = R.split_messages(self.emitted_buf)
        return len(msgs) >= n

    def read_emitted(self):
        """Whole messages the node has written since the last call, decoded by the reference decoder."""
        self._pull()
        msgs, rest = R.split_messages(self.emitted_buf)
        self.emitted_buf = bytearray(rest)
        out = []
        for m in msgs:
            try:
                out.append(R.decode(m)[0])
            except R.Malformed:
                out.append(R.LMsg(0, 0, 0, 0, 0, 0, []))
        self.emitted_msgs += out
        return out

    def quiesce(self, timeout=5.0):
        """Run until every queue and buffer is empty and the state machine has ticked twice without change."""
        s = self.sched
        a = self.node._association
        psm = self.node._peer_state_machine

        def idle():
            if a is None or a.transport is None:
                return True
            t = a.transport
            return (not self.node_sock.rx and a._recv_messages.empty() and a._send_messages.empty()
                    and not t._send_buffer and not t.data_stream and not t._recv_data_stream and not t._recv_buffer
                    and not t.send_data_stream_queued)
        ok = s.run_until(idle, timeout, "quiesce")
        s.sleep(0.001)      # at least two state-machine ticks (ticker = 100 us)
        ok2 = s.run_until(idle, timeout, "quiesce2")
        return ok and ok2

    def state(self):
        return self.node.get_current_state()

    def coverage(self):
        c = self.sched.coverage()
        c["recv_chunks"] = len(self.net.recv_chunks)
        c["partial_sends"] = self.net.partial_sends
        return c
