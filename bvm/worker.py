"""Worker entry: python -m bvm.worker <module> <func> <in.json> <out.json>"""
import faulthandler
import importlib
import json
import logging
import os
import resource
import sys


def main():
    module, func, fin, fout = sys.argv[1:5]
    faulthandler.enable()
    logging.disable(logging.CRITICAL)
    try:
        resource.setrlimit(resource.RLIMIT_AS, (4 << 30, 4 << 30))
    except Exception:
        pass
    with open(fin) as f:
        batch = json.load(f)
    mod = importlib.import_module(module)
    acc = getattr(mod, func)(batch)
    with open(fout, "w") as f:
        json.dump(acc.to_json(), f, default=repr)
        f.flush()
        os.fsync(f.fileno())
    sys.stdout.flush()
    sys.stderr.flush()
    os._exit(0)         # real-thread batches: a stuck non-daemon thread of the code under test must not keep the worker alive


if __name__ == "__main__":
    main()
