"""Fidelity self-test of the substituted transport: a scripted sequence of calls is executed against real loopback
sockets + the real DefaultSelector and against the fakes; the result classes must agree.  A disagreement makes the
network checks inconclusive (the model is wrong); it produces no verdict about bromelia."""
import errno
import selectors
import socket
import time

from . import vnet, vsched


def cls(f):
    try:
        r = f()
    except BaseException as e:
        return type(e).__name__
    if isinstance(r, bytes):
        return "bytes:empty" if not r else "bytes"
    if isinstance(r, int):
        return "int:0" if r == 0 else "int"
    return type(r).__name__


def script(mk_listener, mk_client, mk_selector, settle):
    out = []
    # 1. connect to a port nobody listens on
    c = mk_client()
    out.append(("connect_ex-closed-port", "int" if isinstance(c.connect_ex(("127.0.0.1", 1)), int) else "?"))
    settle()
    out.append(("send-empty-after-refused", cls(lambda: c.send(b""))))
    out.append(("send-empty-after-refused-2", cls(lambda: c.send(b""))))
    out.append(("shutdown-after-refused", cls(lambda: c.shutdown(socket.SHUT_RDWR))))
    c.close()
    c = mk_client()
    out.append(("shutdown-never-connected", cls(lambda: c.shutdown(socket.SHUT_RDWR))))
    c.close()
    # 2. established connection
    l, addr = mk_listener()
    c = mk_client()
    c.connect_ex(addr)
    settle()
    srv = None
    for _ in range(50):
        try:
            srv, _a = l.accept()
            break
        except BlockingIOError:
            settle()
    srv.setblocking(False)
    out.append(("send-empty-established", cls(lambda: c.send(b""))))
    out.append(("recv-nothing", cls(lambda: c.recv(100))))
    out.append(("send-data", cls(lambda: c.send(b"hello"))))
    settle()
    out.append(("recv-data", cls(lambda: srv.recv(100))))
    # 3. selector: modify with data, then select hands the data back with the key
    sel = mk_selector()
    sel.register(c, selectors.EVENT_READ)
    sel.modify(c, selectors.EVENT_READ | selectors.EVENT_WRITE, data=b"payload")
    ev = sel.select(timeout=0.2)
    out.append(("select-after-modify-data", "data+write" if ev and ev[0][0].data == b"payload" and ev[0][1] & selectors.EVENT_WRITE else repr(ev)))
    sel.modify(c, selectors.EVENT_READ)
    ev = sel.select(timeout=0.05)
    out.append(("select-read-idle", "empty" if not ev else "ready"))
    srv.send(b"x")
    settle()
    ev = sel.select(timeout=0.2)
    out.append(("select-read-ready", "read" if ev and ev[0][1] & selectors.EVENT_READ and ev[0][0].data is None else repr(ev)))
    c.recv(10)
    # 4. peer closes: recv -> b"", first send succeeds, later send fails
    srv.close()
    settle()
    out.append(("recv-after-peer-close", cls(lambda: c.recv(10))))
    out.append(("send-after-peer-close-1", cls(lambda: c.send(b"abc"))))
    settle()
    out.append(("send-after-peer-close-2", cls(lambda: c.send(b"abc"))))
    sel.unregister(c)
    c.close()
    out.append(("send-on-closed-socket", cls(lambda: c.send(b"z"))))
    # 5. shutdown(): fine on an established socket (the peer reads end-of-file, own sends fail), fine after the peer's FIN
    c = mk_client()
    c.connect_ex(addr)
    settle()
    srv = None
    for _ in range(50):
        try:
            srv, _a = l.accept()
            break
        except BlockingIOError:
            settle()
    srv.setblocking(False)
    out.append(("shutdown-established", cls(lambda: c.shutdown(socket.SHUT_RDWR))))
    settle()
    out.append(("peer-recv-after-shutdown", cls(lambda: srv.recv(10))))
    out.append(("send-after-own-shutdown", cls(lambda: c.send(b"abc"))))
    out.append(("shutdown-after-peer-fin", cls(lambda: srv.shutdown(socket.SHUT_RDWR))))
    c.close()
    srv.close()
    l.close()
    return out


def run_real():
    def mk_listener():
        l = socket.socket(socket.AF_INET, socket.SOCK_STREAM)
        l.setsockopt(socket.SOL_SOCKET, socket.SO_REUSEADDR, 1)
        l.bind(("127.0.0.1", 0))
        l.listen()
        l.setblocking(False)
        return l, l.getsockname()

    def mk_client():
        c = socket.socket(socket.AF_INET, socket.SOCK_STREAM)
        c.setblocking(False)
        return c
    return script(mk_listener, mk_client, selectors.DefaultSelector, lambda: time.sleep(0.02))


def run_fake():
    s = vsched.Sched(seed=0, strategy="rr", wall_s=20)
    net = vnet.Net(s)
    mod = vnet.VSelectorsMod(net)

    def mk_listener():
        l = vnet.FakeSocket(net)
        l.bind(("127.0.0.1", 4000))
        l.listen()
        return l, ("127.0.0.1", 4000)
    try:
        return script(mk_listener, lambda: vnet.FakeSocket(net), mod.DefaultSelector, lambda: None)
    finally:
        s.shutdown()


def compare():
    """-> list of disagreements (empty = the model agrees with the real loopback on every scripted step)"""
    try:
        real = run_real()
    except BaseException as e:      # no loopback available: cannot tell
        return [("real-run-failed", repr(e), None)]
    fake = run_fake()
    return [(a[0], a[1], b[1]) for a, b in zip(real, fake) if a[1] != b[1]]


if __name__ == "__main__":
    d = compare()
    for x in d:
        print("DISAGREE", x)
    print("vnet fidelity self-test:", "ok" if not d else "%d disagreement(s)" % len(d))
    raise SystemExit(1 if d else 0)
