"""Guards: decoder step bound through sys.monitoring LINE events on the while-loop headers of
DiameterMessage.load and DiameterAVP.load (located through the AST, not by line number)."""
import ast
import inspect
import sys
import textwrap


class NonTerminatingDecode(BaseException):
    """Raised out of the monitoring callback: the decoder looped more often than any input of this length allows."""


class DecoderGuard:
    TOOL = 4

    def __init__(self):
        self.while_lines = {}      # code object -> set(line numbers of `while` headers)
        self.counts = {}
        self.limit = 1 << 30
        self.tripped = 0
        self.max_seen = 0
        self.installed = False

    def _while_lines(self, func):
        src = textwrap.dedent(inspect.getsource(func))
        tree = ast.parse(src)
        first = func.__code__.co_firstlineno
        lines = set()
        for node in ast.walk(tree):
            if isinstance(node, ast.While):
                lines.add(first + node.lineno - 1)
        return lines

    def install(self):
        from bromelia.base import DiameterMessage, DiameterAVP
        mon = sys.monitoring
        try:
            mon.use_tool_id(self.TOOL, "bvm-decoder-guard")
        except ValueError:
            pass
        for f in (DiameterMessage.load, DiameterAVP.load):
            code = f.__code__
            self.while_lines[code] = self._while_lines(f)
            self.counts[code] = 0
            if not self.while_lines[code]:
                raise RuntimeError("no while loop found in %s: the guard would never fire" % f.__qualname__)
            mon.set_local_events(self.TOOL, code, mon.events.LINE)
        mon.register_callback(self.TOOL, mon.events.LINE, self._on_line)
        self.installed = True
        return self

    def _on_line(self, code, line):
        wl = self.while_lines.get(code)
        if wl is not None and line in wl:
            c = self.counts[code] + 1
            self.counts[code] = c
            if c > self.limit:
                self.tripped += 1
                self.counts[code] = 0
                raise NonTerminatingDecode("%s: loop header at line %d executed %d times (limit %d)" % (
                    code.co_qualname, line, c, self.limit))

    def arm(self, nbytes):
        """Call before each top-level decode: bound = f(len)."""
        for c in self.counts:
            self.max_seen = max(self.max_seen, self.counts[c])
            self.counts[c] = 0
        self.limit = 4 * nbytes + 64

    def disarm(self):
        self.limit = 1 << 30


def innermost_site(tb):
    """(function name, module) of the innermost frame inside bromelia for a traceback."""
    site = None
    while tb is not None:
        co = tb.tb_frame.f_code
        if "/bromelia/" in co.co_filename:
            site = co.co_qualname
        tb = tb.tb_next
    return site
