"""In-memory sockets + selector for the substituted transport.

FakeSocket implements the calls bromelia makes over an in-memory byte pipe with fault scripts; VSelector
subclasses the standard library's pure-Python selectors._BaseSelectorImpl, so register/modify/unregister and
the key-replacement semantics of modify(data=...) are the stdlib's own code; only select() is new.
"""
import errno
import selectors
import os
import socket as _socket

EVENT_READ, EVENT_WRITE = selectors.EVENT_READ, selectors.EVENT_WRITE


class Net:
    def __init__(self, sched):
        self.s = sched
        self.listeners = {}
        self.fd = 1000
        self.socks = []
        self.selectors = []
        self.write_len = None       # fault script: callable(sock, n) -> bytes accepted by this send (0 => BlockingIOError)
        self.read_len = None        # fault script: callable(sock, avail, n) -> bytes returned by this recv
        self.recv_chunks = []
        self.send_calls = 0
        self.partial_sends = 0
        self.blocked_sends = 0

    def next_fd(self):
        self.fd += 1
        return self.fd

    def open_sockets(self):
        return [s for s in self.socks if not s.closed and not s.harness_side]

    def registered(self):
        out = []
        for sel in self.selectors:
            out += [k.fileobj for k in sel.get_map().values()] if sel._fd_to_key else []
        return out


class FakeSocket:
    def __init__(self, net, *a, harness_side=False):
        self.net = net
        self.fd = net.next_fd()
        self.rx = bytearray()
        self.peer = None
        self.closed = False
        self.listening = False
        self.backlog = []
        self.state = "new"
        self.addr = None
        self.refused_reported = False
        self.fail_errno = errno.ECONNREFUSED
        self.reset = False
        self.sent_total = bytearray()
        self.send_log = []          # (caller task, nbytes offered, nbytes accepted)
        self.harness_side = harness_side
        net.socks.append(self)

    def __repr__(self):
        return "<FakeSocket fd=%d %s%s>" % (self.fd, self.state, " closed" if self.closed else "")

    def fileno(self):
        return -1 if self.closed else self.fd

    def setblocking(self, f):
        pass

    def setsockopt(self, *a):
        pass

    def bind(self, addr):
        self.addr = addr

    def listen(self, *a):
        self.listening = True
        self.state = "listen"
        self.net.listeners[self.addr] = self

    def accept(self):
        self.net.s.yield_point("sock.accept")
        if not self.backlog:
            raise BlockingIOError(errno.EAGAIN, "no pending connection")
        c = self.backlog.pop(0)
        return c, ("127.0.0.9", 40000 + c.fd)

    def connect_ex(self, addr):
        self.net.s.yield_point("sock.connect")
        fails = getattr(self.net, "connect_failures", None)
        if fails and not self.harness_side:
            raise fails.pop(0)
        l = self.net.listeners.get(addr)
        if l is None or l.closed:
            # the attempt fails asynchronously: refused by default, or - set by the harness - timed out (the peer never answers
            # the SYNs) / host unreachable (an ICMP error comes back); the error is reported by the next send()/recv()
            self.state = "refused"
            self.fail_errno = getattr(self.net, "connect_fail_errno", None) or errno.ECONNREFUSED
            return errno.EINPROGRESS
        srv = FakeSocket(self.net, harness_side=l.harness_side)
        srv.peer = self
        self.peer = srv
        srv.state = self.state = "conn"
        l.backlog.append(srv)
        return errno.EINPROGRESS

    def connect(self, addr):        # blocking connect (SCTP client path)
        self.connect_ex(addr)
        if self.state == "refused":
            raise ConnectionRefusedError(errno.ECONNREFUSED, "refused")

    def send(self, data):
        s = self.net.s
        s.yield_point("sock.send")
        self.net.send_calls += 1
        if self.closed:
            raise OSError(errno.EBADF, "Bad file descriptor")
        if self.state == "refused":
            if not self.refused_reported:
                self.refused_reported = True
                raise OSError(self.fail_errno, os.strerror(self.fail_errno))     # OSError picks the subclass (ConnectionRefusedError, TimeoutError ...)
            raise BrokenPipeError(errno.EPIPE, "Broken pipe")
        if self.state != "conn":
            raise OSError(errno.ENOTCONN, "Transport endpoint is not connected")
        if self.reset:
            raise ConnectionResetError(errno.ECONNRESET, "Connection reset by peer")
        if self.eof_sent and data:
            raise BrokenPipeError(errno.EPIPE, "Broken pipe")
        if (self.peer.closed or self.peer.eof_sent):
            # Linux: the first send() after the peer closed still succeeds (the bytes provoke a RST), later ones fail
            if data and not self.sent_after_peer_close:
                self.sent_after_peer_close = True
                return len(data)
            if data:
                raise BrokenPipeError(errno.EPIPE, "Broken pipe")
        if not data:
            return 0
        n = len(data)
        if self.net.write_len is not None and not self.harness_side:
            n = max(0, min(len(data), self.net.write_len(self, len(data))))
        cur = s.cur()
        self.send_log.append((cur.name if cur else None, len(data), n, s.steps, len(self.sent_total) + n))
        if n == 0:
            self.net.blocked_sends += 1
            self.blocked_until = s.now + 0.0005      # send buffer full: not writable until the peer drains it
            raise BlockingIOError(errno.EAGAIN, "Resource temporarily unavailable")
        if n < len(data):
            self.net.partial_sends += 1
        self.peer.rx += data[:n]
        self.sent_total += data[:n]
        return n

    def recv(self, n):
        self.net.s.yield_point("sock.recv")
        if self.closed:
            raise OSError(errno.EBADF, "Bad file descriptor")
        if self.rx:
            k = min(len(self.rx), n)
            if self.net.read_len is not None and not self.harness_side:
                k = max(1, min(k, self.net.read_len(self, len(self.rx), n)))
            out = bytes(self.rx[:k])
            del self.rx[:k]
            if not self.harness_side:
                self.net.recv_chunks.append(len(out))
            return out
        if self.reset:
            raise ConnectionResetError(errno.ECONNRESET, "Connection reset by peer")
        if self.peer is not None and (self.peer.closed or self.peer.eof_sent):
            return b""
        if self.state == "refused":
            raise OSError(self.fail_errno, os.strerror(self.fail_errno))
        raise BlockingIOError(errno.EAGAIN, "Resource temporarily unavailable")

    eof_sent = False

    def shutdown(self, how):
        """Linux: ENOTCONN on a socket that is not (or no longer) connected - never connected, refused, reset by the peer;
        fine on an established one, also after the peer's FIN (CLOSE_WAIT); the peer then reads end-of-file"""
        self.net.s.yield_point("sock.shutdown")
        if self.closed:
            raise OSError(errno.EBADF, "Bad file descriptor")
        if self.listening:
            return
        if self.state != "conn" or self.reset:
            raise OSError(errno.ENOTCONN, "Transport endpoint is not connected")
        if how != _socket.SHUT_RD:
            self.eof_sent = True

    def close(self):
        self.closed = True
        if self.listening:
            self.net.listeners.pop(self.addr, None)

    # SCTP flavoured calls (fake sctp module)
    def sctp_send(self, data):
        return self.send(data)

    def sctp_recv(self, n):
        return None, 0, self.recv(n), None

    # readiness
    def readable(self):
        if self.closed:
            return False
        if self.listening:
            return bool(self.backlog)
        return bool(self.rx) or self.reset or (self.peer is not None and (self.peer.closed or self.peer.eof_sent)) or self.state == "refused"

    blocked_until = 0.0
    sent_after_peer_close = False

    def writable(self):
        return self.state in ("conn", "refused") and not self.closed and self.net.s.now >= self.blocked_until


class VSelector(selectors._BaseSelectorImpl):
    net = None

    def select(self, timeout=None):
        s = self.net.s
        s.yield_point("select")

        def ready():
            out = []
            for key in list(self._fd_to_key.values()):
                m = 0
                so = key.fileobj
                if key.events & EVENT_READ and so.readable():
                    m |= EVENT_READ
                if key.events & EVENT_WRITE and so.writable():
                    m |= EVENT_WRITE
                if m:
                    out.append((key, m))
            return out
        r = ready()
        if r:
            return r
        if timeout is not None and timeout <= 0:
            return []
        s.block_until(lambda: bool(ready()), timeout, "select")
        return ready()


class VSelectorsMod:
    EVENT_READ = EVENT_READ
    EVENT_WRITE = EVENT_WRITE

    def __init__(self, net):
        self.net = net

    def DefaultSelector(self):
        v = VSelector()
        v.net = self.net
        self.net.selectors.append(v)
        return v


class VSocketMod:
    AF_INET = _socket.AF_INET
    SOCK_STREAM = _socket.SOCK_STREAM
    SOL_SOCKET = _socket.SOL_SOCKET
    SO_REUSEADDR = _socket.SO_REUSEADDR

    def __init__(self, net):
        self.net = net

    def __getattr__(self, name):
        # constants (SHUT_RDWR, SO_KEEPALIVE, IPPROTO_TCP ...) are the real module's; functions are not forwarded
        if name.isupper():
            return getattr(_socket, name)
        raise AttributeError(name)

    def socket(self, *a):
        # fault injection: the next socket() calls of the code under test fail (EMFILE, ENOBUFS ...)
        fails = getattr(self.net, "socket_failures", None)
        if fails:
            raise fails.pop(0)
        return FakeSocket(self.net, *a)

    def getfqdn(self):
        return "vhost.local"

    def gethostbyname(self, n):
        return "127.0.0.1"


# ---------------------------------------------------------------------- fake pysctp (real SCTP cannot be exercised offline)

class _SctpStatus:
    state_ESTABLISHED = 4

    def __init__(self, established):
        self.state = 4 if established else 0


class FakeSctpSocket(FakeSocket):
    def get_status(self):
        return _SctpStatus(self.state == "conn" and not self.closed and not (self.peer is not None and self.peer.closed))


class FakeSctpModule:
    """stands for the `sctp` module of pysctp: sctpsocket_tcp(family) -> socket-like object"""

    def __init__(self, net):
        self.net = net

    def sctpsocket_tcp(self, family):
        return FakeSctpSocket(self.net)


class FakeSctpLowLevel:
    """stands for `_sctp`"""

    @staticmethod
    def getconstant(name):
        return {"IPPROTO_SCTP": 132}.get(name, 0)


def install_fake_sctp(net):
    import sys
    sys.modules["sctp"] = FakeSctpModule(net)
    sys.modules["_sctp"] = FakeSctpLowLevel()
