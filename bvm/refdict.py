"""Vendored reference dictionary (refdict.json): loader and helpers."""
import json
import os

_PATH = os.path.join(os.path.dirname(os.path.abspath(__file__)), "refdict.json")
_cache = None

# Typed command classes: (lib, class) -> (command code, application id, is_request).
# Written from RFC 6733 / RFC 4006 / RFC 4072 and 3GPP TS 29.272 (S6a/S13), 29.273 (SWm/SWx/S6b),
# 29.212 (Gx), 32.299 (Gy), 29.214 (Rx); not derived from the tree under test.
APP = {"ietf_rfc6733": 0, "etsi_3gpp_s6a": 16777251, "etsi_3gpp_s13": 16777252, "etsi_3gpp_swm": 16777264,
       "etsi_3gpp_swx": 16777265, "etsi_3gpp_s6b": 16777272, "etsi_3gpp_gx": 16777238, "etsi_3gpp_gy": 4,
       "etsi_3gpp_rx": 16777236}
CMD = {"CapabilitiesExchange": 257, "DeviceWatchdog": 280, "DisconnectPeer": 282, "ReAuth": 258,
       "SessionTermination": 275, "AbortSession": 274, "AuthenticationInformation": 318, "CancelLocation": 317,
       "Notify": 323, "PurgeUe": 321, "UpdateLocation": 316, "MeIdentityCheck": 324, "DiameterEap": 268,
       "MultimediaAuth": 303, "RegistrationTermination": 304, "ServerAssignment": 301, "AA": 265,
       "CreditControl": 272}
LIB_COMMANDS = {
    "ietf_rfc6733": ["AbortSession", "CapabilitiesExchange", "DeviceWatchdog", "DisconnectPeer", "ReAuth", "SessionTermination"],
    "etsi_3gpp_s6a": ["AuthenticationInformation", "CancelLocation", "Notify", "PurgeUe", "UpdateLocation"],
    "etsi_3gpp_s13": ["MeIdentityCheck"],
    "etsi_3gpp_swm": ["AbortSession", "DiameterEap"],
    "etsi_3gpp_swx": ["MultimediaAuth", "RegistrationTermination", "ServerAssignment"],
    "etsi_3gpp_s6b": ["AA"],
    "etsi_3gpp_gx": ["CreditControl", "ReAuth"],
    "etsi_3gpp_gy": ["CreditControl"],
    "etsi_3gpp_rx": ["AA", "AbortSession", "ReAuth", "SessionTermination"],
}


def command_table():
    t = {}
    for lib, cmds in LIB_COMMANDS.items():
        for c in cmds:
            for suffix, is_req in (("Request", True), ("Answer", False)):
                t[(lib, c + suffix)] = {"code": CMD[c], "app_id": APP[lib], "request": is_req, "pair": c}
    return t


def load():
    global _cache
    if _cache is None:
        with open(_PATH) as f:
            _cache = json.load(f)
    return _cache
