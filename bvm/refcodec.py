"""Independent reference model of the RFC 6733 wire format.

Written from RFC 6733 sections 3 and 4; imports nothing from bromelia.  Logical content:

    LMsg(version, flags, code, app_id, hbh, e2e, avps=[LAvp...])
    LAvp(code, flags, vendor | None, value)     value ::= bytes | [LAvp...]  (Grouped)

encode() is total on logical content whose fields are in range; decode() is the strict inverse
and raises Malformed on anything that is not a well-formed encoding.
"""
import datetime
import ipaddress


class Malformed(Exception):
    pass


class LAvp:
    __slots__ = ("code", "flags", "vendor", "value")

    def __init__(self, code, flags, vendor, value):
        self.code = code
        self.flags = flags
        self.vendor = vendor
        self.value = value

    def is_grouped(self):
        return isinstance(self.value, list)

    def to_json(self):
        v = self.value
        return {"code": self.code, "flags": self.flags, "vendor": self.vendor,
                "value": [m.to_json() for m in v] if isinstance(v, list) else v.hex()}

    @staticmethod
    def from_json(d):
        v = d["value"]
        return LAvp(d["code"], d["flags"], d["vendor"],
                    [LAvp.from_json(m) for m in v] if isinstance(v, list) else bytes.fromhex(v))

    def __repr__(self):
        return "LAvp(%r)" % (self.to_json(),)

    def __eq__(self, o):
        return isinstance(o, LAvp) and self.to_json() == o.to_json()


class LMsg:
    __slots__ = ("version", "flags", "code", "app_id", "hbh", "e2e", "avps")

    def __init__(self, version=1, flags=0, code=0, app_id=0, hbh=0, e2e=0, avps=None):
        self.version = version
        self.flags = flags
        self.code = code
        self.app_id = app_id
        self.hbh = hbh
        self.e2e = e2e
        self.avps = avps if avps is not None else []

    def to_json(self):
        return {"version": self.version, "flags": self.flags, "code": self.code,
                "app_id": self.app_id, "hbh": self.hbh, "e2e": self.e2e,
                "avps": [a.to_json() for a in self.avps]}

    @staticmethod
    def from_json(d):
        return LMsg(d["version"], d["flags"], d["code"], d["app_id"], d["hbh"], d["e2e"],
                    [LAvp.from_json(a) for a in d["avps"]])

    def __repr__(self):
        return "LMsg(%r)" % (self.to_json(),)

    def __eq__(self, o):
        return isinstance(o, LMsg) and self.to_json() == o.to_json()


# --------------------------------------------------------------------------------- encoding

def avp_data(avp):
    if isinstance(avp.value, list):
        return b"".join(encode_avp(m) for m in avp.value)
    return bytes(avp.value)


def encode_avp(avp):
    data = avp_data(avp)
    has_vendor = avp.vendor is not None
    if bool(avp.flags & 0x80) != has_vendor:
        raise ValueError("V flag must agree with the presence of a Vendor-ID")
    hdr = 12 if has_vendor else 8
    length = hdr + len(data)
    if length >= 1 << 24:
        raise ValueError("AVP too long")
    out = avp.code.to_bytes(4, "big") + bytes([avp.flags]) + length.to_bytes(3, "big")
    if has_vendor:
        out += avp.vendor.to_bytes(4, "big")
    out += data
    out += b"\x00" * ((-len(data)) % 4)
    return out


def encode(msg):
    body = b"".join(encode_avp(a) for a in msg.avps)
    length = 20 + len(body)
    if length >= 1 << 24:
        raise ValueError("message too long")
    return (bytes([msg.version]) + length.to_bytes(3, "big") + bytes([msg.flags])
            + msg.code.to_bytes(3, "big") + msg.app_id.to_bytes(4, "big")
            + msg.hbh.to_bytes(4, "big") + msg.e2e.to_bytes(4, "big") + body)


def encode_stream(msgs):
    return b"".join(encode(m) for m in msgs)


# --------------------------------------------------------------------------------- decoding

def decode_avps(buf, grouped=None, depth=0):
    """Strict decoder of a concatenation of AVPs.  `grouped(code, vendor)` says whether an AVP's
    data is to be decoded as members (used by callers who know the dictionary); default: never.
    """
    out = []
    i = 0
    n = len(buf)
    while i < n:
        if n - i < 8:
            raise Malformed("AVP header truncated at %d" % i)
        code = int.from_bytes(buf[i:i + 4], "big")
        flags = buf[i + 4]
        length = int.from_bytes(buf[i + 5:i + 8], "big")
        hdr = 12 if flags & 0x80 else 8
        if length < hdr:
            raise Malformed("AVP length %d shorter than its header at %d" % (length, i))
        padded = length + ((-length) % 4)
        if i + length > n:
            raise Malformed("AVP at %d overruns its container" % i)
        if i + padded > n:
            raise Malformed("AVP padding at %d overruns its container" % i)
        vendor = int.from_bytes(buf[i + 8:i + 12], "big") if flags & 0x80 else None
        data = buf[i + hdr:i + length]
        if any(buf[i + length:i + padded]):
            raise Malformed("non-zero padding at %d" % i)
        if grouped is not None and grouped(code, vendor):
            value = decode_avps(data, grouped, depth + 1)
        else:
            value = bytes(data)
        out.append(LAvp(code, flags, vendor, value))
        i += padded
    return out


def decode(buf, grouped=None):
    """Strict decoder of one or more concatenated messages -> [LMsg]."""
    out = []
    i = 0
    n = len(buf)
    while i < n:
        if n - i < 20:
            raise Malformed("message header truncated at %d" % i)
        length = int.from_bytes(buf[i + 1:i + 4], "big")
        if length < 20 or length % 4:
            raise Malformed("bad Message Length %d at %d" % (length, i))
        if i + length > n:
            raise Malformed("message at %d overruns the stream" % i)
        m = LMsg(buf[i], buf[i + 4], int.from_bytes(buf[i + 5:i + 8], "big"),
                 int.from_bytes(buf[i + 8:i + 12], "big"),
                 int.from_bytes(buf[i + 12:i + 16], "big"),
                 int.from_bytes(buf[i + 16:i + 20], "big"),
                 decode_avps(buf[i + 20:i + length], grouped))
        out.append(m)
        i += length
    return out


def split_messages(buf):
    """Frame a byte stream into whole messages by Message Length only.
    Returns (messages, residue)."""
    out = []
    i = 0
    n = len(buf)
    while n - i >= 20:
        length = int.from_bytes(buf[i + 1:i + 4], "big")
        if length < 20 or i + length > n:
            break
        out.append(bytes(buf[i:i + length]))
        i += length
    return out, bytes(buf[i:])


# --------------------------------------------------------------------------------- typed values

EPOCH_1900 = datetime.datetime(1900, 1, 1)


def enc_u32(n):
    return n.to_bytes(4, "big")


def enc_i32(n):
    return n.to_bytes(4, "big", signed=True)


def enc_u64(n):
    return n.to_bytes(8, "big")


def enc_address(lit):
    ip = ipaddress.ip_address(lit)
    fam = 1 if ip.version == 4 else 2
    return fam.to_bytes(2, "big") + ip.packed


def enc_time(dt):
    delta = dt - EPOCH_1900
    secs = delta.days * 86400 + delta.seconds
    return secs.to_bytes(4, "big")


def enc_utf8(s):
    return s.encode("utf-8")


def ref_tbcd(digits):
    """3GPP TBCD: digits pairwise nibble-swapped, 'f' filler iff odd length (hex string)."""
    out = []
    for i in range(0, len(digits), 2):
        pair = digits[i:i + 2]
        if len(pair) == 2:
            out.append(pair[1] + pair[0])
        else:
            out.append("f" + pair[0])
    return "".join(out)


def ref_untbcd(hexstr):
    out = []
    for i in range(0, len(hexstr), 2):
        pair = hexstr[i:i + 2]
        if pair[0] == "f":
            out.append(pair[1])
        else:
            out.append(pair[1] + pair[0])
    return "".join(out)


def avp_layout(avps, base, grouped, out, depth=0):
    """Append (offset of the AVP in the stream, header length, AVP length, depth) for each AVP, recursively."""
    off = base
    for a in avps:
        enc = encode_avp(a)
        hdr = 12 if a.vendor is not None else 8
        out.append({"off": off, "hdr": hdr, "len": hdr + len(avp_data(a)), "depth": depth, "code": a.code, "vendor": a.vendor})
        if isinstance(a.value, list):
            avp_layout(a.value, off + hdr, grouped, out, depth + 1)
        off += len(enc)
    return out


def layout(msg):
    """Layout of one message: list of AVP records as in avp_layout (offsets relative to the message start)."""
    return avp_layout(msg.avps, 20, None, [])
