"""Event machinery shared by the node-level checks (C06, C07, C08, C03-B): an event alphabet applied to a live
node, quiescent-point observation, and the hand-written reference transition model of the peer state machine."""
import bromelia.statemachine as _SM     # noqa: F401  (module constants are adjusted below)

from . import node as N
from . import refcodec as R

OTHER = ("intruder.example", "elsewhere")

# model states
S_WAIT_CER, C_WAIT_CEA, OPEN, CLOSING, CLOSED, DEAD = "S-Wait-CER", "C-Wait-CEA", "Open", "Closing", "Closed", "Dead"

EVENTS = ["CER", "CER-other-host", "CER-odd-flags", "CEA", "CEA-other-host", "DWR", "DWR-other-host", "DWA", "DWA-other-host",
          "DPR", "DPR-bad-cause", "DPA", "APP-req", "APP-req-misaddressed", "APP-ans", "local-stop", "local-stop+pending-inbound",
          "peer-disconnect", "idle", "CEA-duplicate", "DWA-echo", "DWA-echo-twice",
          # requests addressed by host only / realm only / to another realm (RFC 6733 6.1.4: local consumption)
          "APP-req-host-only", "APP-req-realm-only", "APP-req-other-realm",
          # the configured peer's name with stray undecodable octets in it: another identity
          "CER-near-miss-host", "CEA-near-miss-host"]
FOR_THIS_NODE = ("APP-req", "APP-req-realm-only")    # host-only (no Destination-Realm at all) is observed, not judged: RFC 6733 wants the realm in every request
FOR_ANOTHER_NODE = ("APP-req-misaddressed", "APP-req-other-realm")
# the same valid base messages carrying the optional Origin-State-Id AVP their grammar allows: same cells as the plain ones
EVENTS_OPT = ["CER+osi", "CEA+osi", "DWR+osi", "DWA+osi",
              # ... a second Host-IP-Address (1*{Host-IP-Address}: a multi-homed peer), and the other optional AVPs of a CER/CEA
              "CER+2ip", "CEA+2ip", "CER+opt", "CEA+opt"]


def _extra(ev):
    kind = ev.split("+", 1)[1]
    if kind == "osi":
        return [N.origin_state_id()]
    if kind == "2ip":
        return [N.avp(257, b"\x00\x01\x7f\x00\x00\x03"), N.avp(257, b"\x00\x02" + bytes(15) + b"\x01")]
    return [N.avp(265, N.u32(10415)), N.avp(265, N.u32(13019)), N.avp(267, N.u32(7), flags=0), N.avp(299, N.u32(0)),
            N.avp(260, R.encode_avp(N.avp(266, N.u32(10415))) + R.encode_avp(N.avp(258, N.u32(16777251)))), N.avp(259, N.u32(3))]


def slow_ticker(seconds=0.005):
    """The state machine polls every 100 us; for history-quantified checks the period is raised through the module
    constant (no source edit) so that virtual seconds stay cheap. Semantics do not depend on the period."""
    import bromelia.statemachine as SM
    SM.STATE_MACHINE_TICKER = seconds


class Ids:
    def __init__(self, start=100):
        self.n = start

    def next(self):
        self.n += 1
        return self.n, self.n + 0x1000000


def near_miss(k):
    """identities that are NOT the configured peer's although they look like it once undecodable octets are dropped or
    replaced: the configured name with stray octets in it (k picks one)"""
    host, realm = N.PEER[0].encode(), N.PEER[1].encode()
    return [(host[:6] + b"\xff" + host[6:], realm), (host + b"\xfe\xff", realm), (b"\xc3" + host, realm), (host, realm[:3] + b"\xff" + realm[3:]),
            (host[:-1] + b"\x80" + host[-1:], realm + b"\xff")][k % 5]


def event_bytes(ev, ids):
    """-> (bytes to inject or None, (hbh, e2e))"""
    h, e = ids.next()
    L, P = N.LOCAL, N.PEER
    if ev.endswith("-near-miss-host"):
        nh, nr = near_miss(h)
        m = {"CER": N.cer, "CEA": N.cea, "DWR": N.dwr, "DWA": N.dwa}[ev.split("-")[0]](host=nh, realm=nr, hbh=h, e2e=e)
        return R.encode(m), (h, e)
    m = None
    if ev == "CER":
        m = N.cer(hbh=h, e2e=e)
    elif ev == "CER-other-host":
        m = N.cer(host=OTHER[0], realm=OTHER[1], hbh=h, e2e=e)
    elif ev == "CER-odd-flags":
        m = N.cer(hbh=h, e2e=e, flags=0xc0)
    elif ev == "CEA":
        m = N.cea(hbh=h, e2e=e)
    elif ev == "CEA-other-host":
        m = N.cea(host=OTHER[0], realm=OTHER[1], hbh=h, e2e=e)
    elif ev == "DWR":
        m = N.dwr(hbh=h, e2e=e)
    elif ev == "DWR-other-host":
        m = N.dwr(host=OTHER[0], realm=OTHER[1], hbh=h, e2e=e)
    elif ev == "DWA":
        m = N.dwa(hbh=h, e2e=e)
    elif ev == "DWA-other-host":
        m = N.dwa(host=OTHER[0], realm=OTHER[1], hbh=h, e2e=e)
    elif "+" in ev and ev.split("+")[0] in ("CER", "CEA", "DWR", "DWA"):
        m = {"CER": N.cer, "CEA": N.cea, "DWR": N.dwr, "DWA": N.dwa}[ev.split("+")[0]](hbh=h, e2e=e, extra=_extra(ev))
    elif ev == "DPR":
        m = N.dpr(hbh=h, e2e=e)
    elif ev == "DPR-bad-cause":
        m = N.dpr(hbh=h, e2e=e, cause=2)
    elif ev == "DPA":
        m = N.dpa(hbh=h, e2e=e)
    elif ev == "APP-req":
        m = N.app_request(h, dest_host=L[0], dest_realm=L[1])
        e = m.e2e
    elif ev == "APP-req-misaddressed":
        m = N.app_request(h, dest_host="someone.else", dest_realm=L[1])
        e = m.e2e
    elif ev == "APP-req-host-only":
        m = N.app_request(h, dest_host=L[0])
        e = m.e2e
    elif ev == "APP-req-realm-only":
        m = N.app_request(h, dest_realm=L[1])
        e = m.e2e
    elif ev == "APP-req-other-realm":
        m = N.app_request(h, dest_realm="somewhere.else")
        e = m.e2e
    elif ev == "APP-ans":
        m = N.app_answer(h)
        e = m.e2e
    if ev.startswith("APP-req") and m is not None:
        # the command flags besides R are the sender's business: proxiable or not (P), retransmitted or not (T) - to whom a
        # request is addressed does not depend on them
        m.flags = (0xc0, 0x80, 0xd0, 0x90)[h % 4]
    return (R.encode(m) if m is not None else None), (h, e)


# --------------------------------------------------------------------------------------- reference model
# (state, event) -> (next state, required emissions, strength).  strength "hard": taken from the property statement;
# "soft": pinned from the code/RFC, a mismatch is reported as model drift only.  "NOT-OPEN" = only H1 is hard.

def model_step(state, ev, role):
    """-> dict(next=..., emit=[names], hard=bool, not_open=bool)"""
    def r(nxt, emit=(), hard=True, not_open=False):
        return {"next": nxt, "emit": list(emit), "hard": hard, "not_open": not_open}
    if ev in EVENTS_OPT:
        ev = ev.split("+")[0]                     # what the grammar allows besides the mandatory AVPs does not change the cell
    if state in (CLOSED, DEAD):
        return r(state, hard=False)
    if state == S_WAIT_CER:
        if ev == "CER":
            return r(OPEN, ["CEA"])
        if ev == "peer-disconnect":
            return r(DEAD, hard=False, not_open=True)
        return r(S_WAIT_CER, hard=False, not_open=True)
    if state == C_WAIT_CEA:
        if ev == "CEA":
            return r(OPEN)
        if ev == "CEA-duplicate":
            return r(OPEN)                        # it is the valid CEA for the CER that was sent
        if ev in ("CEA-other-host", "CEA-near-miss-host", "local-stop", "local-stop+pending-inbound", "idle"):
            return r(C_WAIT_CEA, hard=False, not_open=True)
        return r(CLOSED)                      # H5 (anything but a CEA) and H4 (peer disconnect)
    if state == OPEN:
        if ev == "DWR":
            return r(OPEN, ["DWA"])
        if ev == "DPR":
            return r(CLOSED, ["DPA"])            # H3
        if ev in ("local-stop", "local-stop+pending-inbound"):
            return r(CLOSING, ["DPR"])           # H2: exactly one DPR, also with inbound messages still queued
        if ev == "peer-disconnect":
            return r(CLOSED)                     # H4
        if ev == "idle":
            return r(OPEN, ["DWR+"])             # H6: at least one
        if ev == "DPR-bad-cause":
            return r(CLOSED)                     # H3, closing half: any received DPR closes the connection (whether the
                                                 # library answers a DPR whose cause it does not accept is not judged)
        if ev == "DWA-other-host":
            return r(CLOSING, hard=False)
        if ev == "CER":
            return r(OPEN, ["CEA"], hard=False)
        if ev in ("DWA", "DWA-echo", "DWA-echo-twice"):
            return r(OPEN)                       # a valid watchdog answer from the configured peer is no reason to leave Open
        return r(OPEN, hard=False)
    if state == CLOSING:
        if ev == "DPA":
            return r(CLOSED)                     # H2
        if ev == "peer-disconnect":
            return r(CLOSED)                     # H4
        return r(CLOSING, hard=False)
    raise AssertionError(state)


class Run:
    """Drives one node through a sequence of events and records observations at quiescent points."""

    def __init__(self, sc, watchdog):
        self.sc = sc
        self.ids = Ids()
        self.delivered = []         # (model state when delivered, hop-by-hop)
        self.model = None
        self.watchdog = watchdog
        self.open_ok = False
        self._wrap()

    def _wrap(self):
        from bromelia.statemachine import State
        run = self
        self._orig = State.notify_postprocess_message

        def notify(st, msg):
            run.delivered.append((run.model, type(st).__name__, msg.header.get_hop_by_hop()))
            return run._orig(st, msg)
        State.notify_postprocess_message = notify

    def unwrap(self):
        from bromelia.statemachine import State
        State.notify_postprocess_message = self._orig

    def connect(self):
        sc = self.sc
        if sc.role == "client":
            sc.listen()
            sc.start_node()
            if not sc.connect_transport():
                return False
            if not sc.sched.run_until(lambda: sc._have_emitted(1), 20, "wait-cer"):
                return False
            m = sc.read_emitted()
            self.cer_ids = (m[0].hbh, m[0].e2e)
            self.model = C_WAIT_CEA
        else:
            sc.start_node()
            if not sc.connect_transport():
                return False
            self.model = S_WAIT_CER
        return True

    def psm_task(self):
        for t in self.sc.sched.tasks:
            if t.name.endswith("_psm_thread"):
                return t
        return None

    def settle(self, extra=0.0):
        """Run to a quiescent point: buffers empty and state stable; closing paths include a 4 s linger."""
        sc = self.sc
        s = sc.sched
        last = [None, 0]

        def stable():
            st = sc.state()
            if st != last[0]:
                last[0] = st
                last[1] = s.now
            return False
        s.run_until(stable, 0.05 + extra, "settle")
        # while a forced close is lingering (SLEEP_TIMER = 4 s) the state machine task sleeps: wait for it
        a = sc.node._association
        psm = self.psm_task()
        if psm is not None and not psm.done and psm.why == "sleep" and psm.deadline is not None and psm.deadline - s.now > 0.5:
            s.run_until(lambda: psm.done or psm.why != "sleep" or psm.deadline is None or psm.deadline - s.now < 0.5, 6.0, "linger")
            s.run_until(lambda: False, 0.05, "after-linger")

    def apply(self, ev):
        """Apply one event; returns the observation dict."""
        sc = self.sc
        s = sc.sched
        before_state = sc.state()
        ndeliv = len(self.delivered)
        sc.read_emitted()
        data, (h, e) = event_bytes(ev, self.ids)
        if ev.split("+")[0] == "CEA" and (ev == "CEA" or ev in EVENTS_OPT) and self.model == C_WAIT_CEA:
            data = R.encode(N.cea(hbh=self.cer_ids[0], e2e=self.cer_ids[1], extra=_extra(ev) if "+" in ev else ()))
        # answers that echo the identifiers of requests the node itself has sent (a duplicated or retransmitted answer)
        if ev == "CEA-duplicate":
            ids_ = getattr(self, "cer_ids", None) or (h, e)
            data = R.encode(N.cea(hbh=ids_[0], e2e=ids_[1]))
        if ev in ("DWA-echo", "DWA-echo-twice"):
            dwrs = [m for m in sc.emitted_msgs if N.name_of(m) == "DWR"]
            ids_ = (dwrs[-1].hbh, dwrs[-1].e2e) if dwrs else (h, e)
            one = R.encode(N.dwa(hbh=ids_[0], e2e=ids_[1]))
            data = one * (2 if ev.endswith("twice") else 1)
        err = None
        t_before = s.now
        if data is not None:
            if sc.node_sock is not None and not sc.node_sock.closed:
                sc.inject(data)
            self.settle()
        elif ev in ("local-stop", "local-stop+pending-inbound"):
            if ev.endswith("pending-inbound") and sc.node_sock is not None and not sc.node_sock.closed:
                burst = b"".join(R.encode(N.dwr(hbh=900000 + k, e2e=900100 + k)) for k in range(3))
                sc.inject(burst)
                s.run_until(lambda: False, 0.0004, "burst-arrives")
            try:
                sc.node.close()
            except BaseException as ex:
                err = type(ex).__name__
            self.settle()
        elif ev == "peer-disconnect":
            if sc.peer_sock is not None:
                sc.peer_sock.close()
            self.settle(extra=1.2)
        elif ev == "idle":
            s.run_until(lambda: False, self.watchdog + 2.5, "idle")
            self.settle()
        emitted = sc.read_emitted()
        obs = {"event": ev, "ids": (h, e), "state_before": before_state, "state_after": sc.state(),
               "emitted": [(N.name_of(m), m.hbh, m.e2e) for m in emitted], "emitted_msgs": emitted,
               "delivered": self.delivered[ndeliv:], "local_error": err, "deaths": list(s.deaths),
               "elapsed": round(s.now - t_before, 3)}
        return obs


def reported_to_model(state):
    return {"Closed": CLOSED, "I-Open": OPEN, "R-Open": OPEN, "Closing": CLOSING, "Wait-I-CEA": C_WAIT_CEA,
            "Wait-Conn-Ack": "Wait-Conn-Ack", "Wait-Returns": "Wait-Returns", "Wait-Conn-Ack/Elect": "Wait-Conn-Ack/Elect"}.get(state, state)
