"""Discovery of the dictionary and command classes in the tree under test."""
import importlib
import inspect
import pkgutil
import warnings

warnings.simplefilter("ignore")

KINDS = ("EnumeratedType", "Integer32Type", "Unsigned32Type", "Unsigned64Type", "GroupedType",
         "AddressType", "TimeType", "UTF8StringType", "DiameterIdentityType", "DiameterURIType",
         "OctetStringType")
KIND_NAME = {"EnumeratedType": "Enumerated", "Integer32Type": "Integer32", "Unsigned32Type": "Unsigned32",
             "Unsigned64Type": "Unsigned64", "GroupedType": "Grouped", "AddressType": "Address",
             "TimeType": "Time", "UTF8StringType": "UTF8String", "DiameterIdentityType": "DiameterIdentity",
             "DiameterURIType": "DiameterURI", "OctetStringType": "OctetString"}


def avp_classes():
    import bromelia.avps  # noqa: F401
    from bromelia.base import DiameterAVP
    for lib in LIBS:        # some dictionary modules (ts_132_299) are only imported by a lib package
        importlib.import_module("bromelia.lib.%s.messages" % lib)
    out, seen = [], set()
    for c in DiameterAVP.__subclasses__():
        if id(c) not in seen:
            seen.add(id(c))
            out.append(c)
    return out


def kind_of(cls):
    for k in cls.__mro__:
        if k.__module__ == "bromelia.types" and k.__name__ in KINDS:
            return KIND_NAME[k.__name__]
    return None


def code_of(cls):
    c = cls.code
    return int.from_bytes(c, "big") if isinstance(c, bytes) else c


def vendor_of(cls):
    v = cls.vendor_id
    if v is None:
        return None
    return int.from_bytes(v, "big") if isinstance(v, bytes) else v


LIBS = ("ietf_rfc6733", "etsi_3gpp_s6a", "etsi_3gpp_s13", "etsi_3gpp_swm", "etsi_3gpp_swx",
        "etsi_3gpp_s6b", "etsi_3gpp_gx", "etsi_3gpp_gy", "etsi_3gpp_rx")


def message_classes():
    """[(lib, class)] for every typed DiameterRequest/DiameterAnswer subclass under bromelia.lib."""
    from bromelia.base import DiameterRequest, DiameterAnswer
    out = []
    for lib in LIBS:
        m = importlib.import_module("bromelia.lib.%s.messages" % lib)
        for name, obj in vars(m).items():
            if (inspect.isclass(obj) and obj.__module__ == m.__name__
                    and issubclass(obj, (DiameterRequest, DiameterAnswer))):
                out.append((lib, obj))
    return out
