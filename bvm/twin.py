"""Two node objects in one process (one local identity, two peers, two connections) on the virtual network: what one node
sends, or how its connection ends, must not show on the other.  The statements quantify over every node object an application
creates; state shared between objects at class or module level (queues, caches, flags) is visible only with two of them.

  twin_outbound(acc, case)   C05: each peer reads exactly the messages submitted to its own node
  twin_lifecycle(acc, case)  C08: ending (and restarting) one connection leaves the other open and working, and the other's
                             end leaves the restarted one open"""
import random

from . import harness
from . import node as N
from . import refcodec as R
from . import vsched


def _load(lm):
    from bromelia.base import DiameterMessage
    return DiameterMessage.load(R.encode(lm))[0]


def twin_outbound(acc, case):
    rng = random.Random(case["seed"])
    sc = N.Scenario(seed=case["seed"], strategy=case["strategy"], p=case.get("p", 0.1), role="client", apps=[16777251],
                    lines=case["strategy"] != "rr", max_steps=1_500_000, wall_s=120)
    wit = {"case": case}
    with sc:
        try:
            if not sc.open():
                acc.inconclusive.append("node A did not open (%r)" % (case,))
                return
            tw = N.Scenario.twin_of(sc)
            if not tw.open():
                acc.inconclusive.append("node B did not open (%r)" % (case,))
                return
            sc.read_emitted(); tw.read_emitted()
            frag = case.get("frag")
            if frag:
                sc.net.write_len = lambda sock, n: min(n, rng.choice(frag))
            sides = []
            done = []
            for tag, s_, base in (("A", sc, 0), ("B", tw, 500000)):
                plans, seq = [], base
                for sub in range(case["submitters"]):
                    mine = []
                    for _ in range(case["per"]):
                        seq += 1
                        lm = N.app_request(seq, size=rng.choice([0, 5, 100, 1000]), host=N.LOCAL[0], realm=N.LOCAL[1], dest_realm=N.PEER[1]) if rng.random() < 0.7 \
                            else N.app_answer(seq, size=rng.choice([0, 17]), host=N.LOCAL[0], realm=N.LOCAL[1])
                        mine.append((seq, R.encode(lm), _load(lm)))
                    plans.append(mine)
                sides.append({"tag": tag, "sc": s_, "plans": plans})

            def submitter(side, mine, batch):
                if batch:
                    side["sc"].node.send_messages([o for _, _, o in mine])
                else:
                    for _, _, o in mine:
                        side["sc"].node.send_message(o)
                done.append(1)
            k = 0
            for side in (sides if rng.random() < 0.5 else sides[::-1]):
                for mine in side["plans"]:
                    sc.sched.spawn("submitter%d" % k, submitter, side, mine, case.get("batch") and k % 2 == 0)
                    k += 1
            total = {x["tag"]: sum(len(m) for m in x["plans"]) for x in sides}
            got = {"A": [], "B": []}

            def pull():
                for x in sides:
                    got[x["tag"]] += [m for m in x["sc"].read_emitted() if N.name_of(m) not in ("DWR", "DWA")]
                return all(len(got[t]) >= total[t] for t in got)
            sc.sched.run_until(pull, 4.0 + 0.01 * sum(total.values()), "twin-outbound")
            sc.sched.run_until(lambda: False, 0.01, "grace")
            pull()
            acc.counters["executions"] += 1
            acc.counters["twin_node_executions"] += 1
            wit["deaths"] = sc.sched.deaths
            if sc.sched.deaths:
                d = sc.sched.deaths[0]
                acc.violation("task-died:%s:%s" % (d["task"], d["type"]), "task %s died with %s: %s" % (d["task"], d["exc"], d["traceback"][-300:]), wit)
                return
            for x in sides:
                enc = {s: e for mine in x["plans"] for s, e, _ in mine}
                marks = []
                for m in got[x["tag"]]:
                    mk = N.marker_of(m)
                    marks.append(mk if mk is not None else m.hbh)
                wit[x["tag"]] = {"written": marks[:60], "submitted": [[s for s, _, _ in mine] for mine in x["plans"]]}
                foreign = [m for m in marks if m not in enc]
                if foreign:
                    acc.violation("outbound-written-to-another-nodes-connection", "two nodes in one process: the peer of node %s read message %s, which was submitted to the other node" % (x["tag"], foreign[0]), wit)
                    return
                if len(set(marks)) < len(marks):
                    acc.violation("outbound-duplicated", "two nodes in one process: the peer of node %s read %s" % (x["tag"], marks[:30]), wit)
                    return
                if len(marks) < len(enc):
                    acc.violation("outbound-lost", "two nodes in one process: the peer of node %s read %d of %d submitted messages" % (x["tag"], len(marks), len(enc)), wit)
                    return
                for mine in x["plans"]:
                    order = [m for m in marks if m in {s for s, _, _ in mine}]
                    if order != [s for s, _, _ in mine]:
                        acc.violation("outbound-reordered", "two nodes in one process: one submitter's messages %s were written as %s" % ([s for s, _, _ in mine][:20], order[:20]), wit)
                        return
                if any(R.encode(m) != enc[mk] for m, mk in zip(got[x["tag"]], marks)):
                    acc.violation("outbound-torn-or-interleaved", "two nodes in one process: a written message differs from the submitted one", wit)
                    return
            acc.counters["messages_written"] += sum(total.values())
        except vsched.DeadlockError as ex:
            acc.violation("deadlock", "deadlock: %s" % ex, dict(wit, stacks=sc.sched.stacks()))
        except vsched.WallClock as ex:
            acc.inconclusive.append("%s (case %r)" % (ex, case))
        except vsched.StepBudget as ex:
            acc.inconclusive.append("step budget exhausted: %s (case %r)" % (ex, case))
        cov = sc.coverage()
    acc.evaluations += 1
    acc.sigs.add(harness.sig_hash("twin-out/%s/%s" % (case["strategy"], cov["schedule"])))
    acc.counters["steps"] += cov["steps"]


def _end(sc, cause, rng):
    """apply one termination cause to the scenario's connection (the peer plays its part)"""
    s = sc.sched
    if cause == "local-close":
        sc.node.close()
        s.run_until(lambda: any(N.name_of(m) == "DPR" for m in (sc.read_emitted() or sc.emitted_msgs)) or sc.state() == "Closed", 20, "dpr")
        d = [m for m in sc.emitted_msgs if N.name_of(m) == "DPR"]
        if d:
            sc.inject(R.encode(N.dpa(hbh=d[-1].hbh, e2e=d[-1].e2e)))
    elif cause == "peer-dpr":
        sc.inject(R.encode(N.dpr(hbh=77, e2e=78, cause=rng.choice([0, 1, 2]))))
    elif cause == "peer-disconnect":
        sc.peer_sock.close()
    elif cause == "peer-reset":
        sc.node_sock.reset = True
        sc.peer_sock.close()


def _works(sc, tag, seq, wit):
    """-> None when the open connection of `sc` still carries traffic both ways, else a description"""
    s = sc.sched
    got = []
    sc.read_emitted()

    def consumer():
        got.append(sc.node.get_message())
    s.spawn("consumer_%s_%d" % (tag, seq), consumer)
    sc.inject(R.encode(N.app_request(seq, dest_host=N.LOCAL[0], dest_realm=N.LOCAL[1])))
    if not s.run_until(lambda: bool(got), 3.0, "twin-inbound"):
        return "an application message sent by its peer is not delivered"
    try:
        lm = R.decode(got[0].dump())[0]
    except BaseException as ex:
        if isinstance(ex, vsched.ControlException):
            raise
        return "get_message() returned %r" % (got[0],)
    if N.marker_of(lm) != seq:
        return "get_message() returned message %r instead of %d" % (N.marker_of(lm), seq)
    out = N.app_request(seq + 1, host=N.LOCAL[0], realm=N.LOCAL[1], dest_realm=N.PEER[1])
    try:
        sc.node.send_message(_load(out))
    except BaseException as ex:
        if isinstance(ex, vsched.ControlException):
            raise
        return "send_message() raised %r" % (ex,)
    seen = []
    def poll(pred):
        seen.extend(sc.read_emitted())
        return any(pred(m) for m in seen)
    if not s.run_until(lambda: poll(lambda m: N.marker_of(m) == seq + 1), 3.0, "twin-outbound"):
        return "a submitted message is not written (peer read %s)" % [(N.name_of(m), N.marker_of(m)) for m in seen]
    sc.inject(R.encode(N.dwr(hbh=seq + 7, e2e=seq + 8)))
    if not s.run_until(lambda: poll(lambda m: N.name_of(m) == "DWA" and m.hbh == seq + 7), 3.0, "twin-dwa"):
        return "a watchdog request is not answered"
    return None


def twin_lifecycle(acc, case):
    rng = random.Random(case["seed"])
    cause = case["cause"]
    sc = N.Scenario(seed=case["seed"], strategy=case["strategy"], p=case.get("p", 0.1), role="client", apps=[16777251],
                    lines=case["strategy"] != "rr", max_steps=2_000_000, wall_s=150)
    wit = {"case": case}
    with sc:
        try:
            s = sc.sched
            if not sc.open():
                acc.inconclusive.append("node A did not open (%r)" % (case,))
                return
            tasks_a = set(s.live_tasks())
            tw = N.Scenario.twin_of(sc)
            if not tw.open():
                acc.inconclusive.append("node B did not open (%r)" % (case,))
                return
            tasks_b = set(s.live_tasks()) - tasks_a
            first, other, t_first, t_other = (sc, tw, tasks_a, tasks_b) if case.get("end_first", "A") == "A" else (tw, sc, tasks_b, tasks_a)
            names = {id(sc): "A", id(tw): "B"}
            if case.get("busy"):
                # traffic on the other connection while the first one ends
                other.inject(b"".join(R.encode(N.app_request(900 + k, dest_realm=N.LOCAL[1])) for k in range(3)))
            _end(first, cause, rng)
            ended = s.run_until(lambda: first.state() == "Closed" and not [t for t in t_first if not t.done], 30.0, "first-ends")
            acc.counters["executions"] += 1
            acc.counters["twin_node_executions"] += 1
            wit.update({"first": names[id(first)], "state_first": first.state(), "state_other": other.state(), "deaths": s.deaths,
                        "first_tasks_alive": [t.name for t in t_first if not t.done], "other_tasks_done": [t.name for t in t_other if t.done]})
            tag = "%s" % cause
            if s.deaths:
                d = s.deaths[0]
                acc.violation("task-died:%s:%s" % (d["task"].replace("client_", ""), d["type"]), "%s died with %s (two nodes, %s): %s" % (d["task"], d["exc"], tag, d["traceback"][-400:]), wit)
                return
            if not ended:
                what = "not-closed" if first.state() != "Closed" else "tasks-still-alive"
                acc.violation("%s:%s@twin" % (what, tag), "two nodes in one process: node %s is %s with tasks %s alive after %s" % (
                    names[id(first)], first.state(), wit["first_tasks_alive"], tag), wit)
                return
            if not first.node_sock.closed:
                acc.violation("sockets-not-released:%s@twin" % tag, "two nodes in one process: the socket of the ended connection is still open", wit)
                return
            # the other node: untouched
            if not other.node.is_open() or [t for t in t_other if t.done] or other.node_sock.closed:
                acc.violation("other-node-disturbed-by:%s" % tag, "two nodes in one process: after node %s's connection ended (%s), node %s reports %s, finished tasks %s, socket closed=%r" % (
                    names[id(first)], tag, names[id(other)], other.state(), wit["other_tasks_done"], other.node_sock.closed), wit)
                return
            if case.get("busy"):
                drained = []

                def drain():
                    for _ in range(3):
                        drained.append(other.node.get_message())
                s.spawn("consumer_drain", drain)
                if not s.run_until(lambda: len(drained) >= 3, 3.0, "drain"):
                    acc.violation("other-node-disturbed-by:%s" % tag, "two nodes in one process: messages queued on node %s's connection while the other ended are not delivered (%d of 3)" % (
                        names[id(other)], len(drained)), wit)
                    return
            bad = _works(other, names[id(other)], 1000, wit)
            if bad:
                acc.violation("other-node-disturbed-by:%s" % tag, "two nodes in one process: after node %s's connection ended (%s), on node %s %s" % (
                    names[id(first)], tag, names[id(other)], bad), dict(wit, blocked=s.blocked_report()))
                return
            acc.counters["other_node_still_working"] += 1
            # restart the ended one beside the open one
            before = set(s.live_tasks())
            first.peer_sock = first.node_sock = None
            first.emitted_buf = bytearray()
            first.emitted_msgs = []
            first.starter = None
            try:
                ok = first.open()
            except BaseException as ex:
                if isinstance(ex, vsched.ControlException):
                    raise
                acc.violation("restart-raises:%s" % type(ex).__name__, "two nodes in one process: start() on the ended node raised %r after %s" % (ex, tag), wit)
                return
            if not ok:
                acc.violation("restart-does-not-open:%s@twin" % tag, "two nodes in one process: second start() of node %s did not reach Open (state %s)" % (names[id(first)], first.state()), wit)
                return
            t_first2 = set(s.live_tasks()) - before
            if not other.node.is_open():
                acc.violation("other-node-disturbed-by:restart", "two nodes in one process: node %s reports %s after node %s was restarted" % (names[id(other)], other.state(), names[id(first)]), wit)
                return
            acc.counters["restarts_ok"] += 1
            # now the other one ends; the restarted one stays
            cause2 = case.get("cause2", "local-close")
            _end(other, cause2, rng)
            ended = s.run_until(lambda: other.state() == "Closed" and not [t for t in t_other if not t.done], 30.0, "other-ends")
            wit.update({"state_other_end": other.state(), "other_tasks_alive": [t.name for t in t_other if not t.done], "deaths": s.deaths})
            if s.deaths:
                d = s.deaths[0]
                acc.violation("task-died:%s:%s" % (d["task"].replace("client_", ""), d["type"]), "%s died with %s (two nodes, second end %s): %s" % (d["task"], d["exc"], cause2, d["traceback"][-400:]), wit)
                return
            if not ended:
                what = "not-closed" if other.state() != "Closed" else "tasks-still-alive"
                acc.violation("%s:%s@twin" % (what, cause2), "two nodes in one process: node %s is %s with tasks %s alive after %s" % (
                    names[id(other)], other.state(), wit["other_tasks_alive"], cause2), wit)
                return
            if not first.node.is_open() or [t for t in t_first2 if t.done]:
                acc.violation("other-node-disturbed-by:%s" % cause2, "two nodes in one process: the restarted node %s reports %s (finished tasks %s) after node %s ended" % (
                    names[id(first)], first.state(), [t.name for t in t_first2 if t.done], names[id(other)]), wit)
                return
            bad = _works(first, names[id(first)], 2000, wit)
            if bad:
                acc.violation("other-node-disturbed-by:%s" % cause2, "two nodes in one process: after node %s ended, on the restarted node %s %s" % (names[id(other)], names[id(first)], bad), dict(wit, blocked=s.blocked_report()))
                return
            acc.counters["other_node_still_working"] += 1
        except vsched.DeadlockError as ex:
            acc.violation("deadlock:%s@twin" % cause, "deadlock: %s" % ex, dict(wit, stacks=sc.sched.stacks()))
        except vsched.WallClock as ex:
            acc.inconclusive.append("%s (case %r)" % (ex, case))
        except vsched.StepBudget as ex:
            acc.inconclusive.append("step budget exhausted: %s (case %r)" % (ex, case))
        cov = sc.coverage()
    acc.evaluations += 1
    acc.sigs.add(harness.sig_hash("twin-life/%s/%s/%s" % (cause, case.get("end_first"), cov["schedule"])))
    acc.counters["steps"] += cov["steps"]
