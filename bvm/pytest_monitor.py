"""pytest plugin: the wire-format monitors ride along with the repository's own test-suite.

Loaded with `-p bvm.pytest_monitor` (PYTHONPATH must contain /verif).  It wraps, from outside, DiameterMessage.load and
DiameterMessage.dump / DiameterAVP.dump and checks oracles that need no knowledge of what a test intends:

  load-redump     every stream that load() accepts re-serialises byte-identically, message by message (C02), except for
                  the M/P/reserved AVP flag bits of dictionary AVPs (the recorded known finding)
  dump-framing    every message dump() is a multiple of four bytes long, its Message Length field says so, and the
                  reference decoder can walk its AVPs to exactly the end (C01); recorded only for messages whose AVPs
                  were all built through the library's typed classes (a test may hand-craft anything else)

Results go to the JSON file named by BVM_PYTEST_MONITOR_OUT at session end; the plugin never fails a test."""
import json
import os
import sys
import threading

from . import refcodec as R

STATE = {"loads": 0, "load_redump_checked": 0, "dumps": 0, "dump_framing_checked": 0, "violations": [], "tests": 0,
         "by_key": {}}
LOCK = threading.Lock()
CUR = {"test": None}
TLS = threading.local()


def _viol(key, what, extra):
    with LOCK:
        STATE["by_key"][key] = STATE["by_key"].get(key, 0) + 1
        if STATE["by_key"][key] <= 5:
            STATE["violations"].append({"key": key, "what": what, "test": CUR["test"], "extra": extra})


_RD = {}


def _rd():
    if not _RD:
        d = json.load(open(os.path.join(os.path.dirname(__file__), "refdict.json")))
        for row in d["avps"].values():
            _RD[(row["vendor"], row["code"])] = row
    return _RD


def _is_grouped(code, vendor):
    row = _rd().get((vendor, code))
    return bool(row) and row["type"] == "Grouped"


def _normalise(lavp):
    """the wire content with every dictionary AVP (recursively inside dictionary Grouped AVPs) carrying its class's default
    flags: what the library is known to produce (C02's recorded finding known-avp-flags-from-class-default)"""
    row = _rd().get((lavp.vendor, lavp.code))
    if row is None:
        return lavp
    value = lavp.value
    if row["type"] == "Grouped" and isinstance(value, list):
        value = [_normalise(m) for m in value]
    return R.LAvp(lavp.code, row["flags"], lavp.vendor, value)


def _known_flags_only(stream_avps, again_avps):
    """True when two AVP byte strings differ only by that known finding."""
    try:
        want = b"".join(R.encode_avp(_normalise(a)) for a in R.decode_avps(stream_avps, _is_grouped))
    except Exception:
        return False
    return want == again_avps


def install():
    from bromelia.base import DiameterMessage
    orig_load = DiameterMessage.load
    orig_dump = DiameterMessage.dump

    def load(stream, *a, **k):
        msgs = orig_load(stream, *a, **k)
        if getattr(TLS, "busy", False):
            return msgs
        TLS.busy = True
        try:
            with LOCK:
                STATE["loads"] += 1
            if isinstance(stream, (bytes, bytearray)) and msgs:
                try:
                    frames, rest = R.split_messages(bytes(stream))
                except Exception:
                    frames, rest = None, None
                if frames is not None and not rest and len(frames) == len(msgs):
                    for f, m in zip(frames, msgs):
                        try:
                            R.decode(f)
                        except Exception:
                            continue        # not well-formed by the reference decoder: outside the statement
                        try:
                            again = orig_dump(m)
                        except Exception as ex:
                            _viol("load-redump-raises", "dump() of a loaded message raised %r" % (ex,), {"stream": f.hex()[:400]})
                            continue
                        with LOCK:
                            STATE["load_redump_checked"] += 1
                        if again != f:
                            if again[:20] == f[:20] and _known_flags_only(f[20:], again[20:]):
                                with LOCK:
                                    STATE["by_key"]["known-avp-flags-from-class-default"] = STATE["by_key"].get("known-avp-flags-from-class-default", 0) + 1
                            else:
                                _viol("load-redump-differs", "a loaded message re-serialises differently", {"stream": f.hex()[:600], "again": again.hex()[:600]})
        finally:
            TLS.busy = False
        return msgs

    def dump(self, *a, **k):
        out = orig_dump(self, *a, **k)
        if getattr(TLS, "busy", False):
            return out
        TLS.busy = True
        try:
            with LOCK:
                STATE["dumps"] += 1
            try:
                typed_only = all(type(x).__module__.startswith("bromelia.avps") for x in self.avps)
            except Exception:
                typed_only = False
            if typed_only and isinstance(out, bytes) and len(out) >= 20 and type(self).__module__.startswith("bromelia.lib"):
                with LOCK:
                    STATE["dump_framing_checked"] += 1
                if len(out) % 4 or int.from_bytes(out[1:4], "big") != len(out):
                    _viol("dump-framing-length", "typed message %s: %d bytes, Message Length %d" % (type(self).__name__, len(out), int.from_bytes(out[1:4], "big")),
                          {"wire": out.hex()[:400]})
                else:
                    try:
                        R.decode(out)
                    except Exception as ex:
                        _viol("dump-framing-avps", "typed message %s: the reference decoder cannot walk its AVPs: %r" % (type(self).__name__, ex), {"wire": out.hex()[:600]})
        finally:
            TLS.busy = False
        return out
    DiameterMessage.load = staticmethod(load)
    DiameterMessage.dump = dump
    from bromelia.base import DiameterAVP
    orig_avp_load = DiameterAVP.load

    def avp_load(stream, *a, **k):
        avps = orig_avp_load(stream, *a, **k)
        if getattr(TLS, "busy", False) or not isinstance(stream, (bytes, bytearray)) or not avps:
            return avps
        TLS.busy = True
        try:
            with LOCK:
                STATE["avp_loads"] = STATE.get("avp_loads", 0) + 1
            try:
                ref = R.decode_avps(bytes(stream))
            except Exception:
                return avps             # not well-formed by the reference decoder
            if len(ref) != len(avps):
                _viol("avp-load-count-differs", "%d AVPs on the wire, %d objects" % (len(ref), len(avps)), {"stream": bytes(stream).hex()[:400]})
                return avps
            try:
                again = b"".join(x.dump() for x in avps)
            except Exception as ex:
                _viol("avp-load-redump-raises", "dump() of loaded AVPs raised %r" % (ex,), {"stream": bytes(stream).hex()[:400]})
                return avps
            with LOCK:
                STATE["avp_load_redump_checked"] = STATE.get("avp_load_redump_checked", 0) + 1
            if again != bytes(stream):
                # compare with the AVP flag bytes masked to the V bit (known finding: M/P come back as class defaults)
                if _known_flags_only(bytes(stream), again):
                    with LOCK:
                        STATE["by_key"]["known-avp-flags-from-class-default"] = STATE["by_key"].get("known-avp-flags-from-class-default", 0) + 1
                else:
                    _viol("avp-load-redump-differs", "loaded AVPs re-serialise differently", {"stream": bytes(stream).hex()[:600], "again": again.hex()[:600]})
        finally:
            TLS.busy = False
        return avps
    DiameterAVP.load = staticmethod(avp_load)


def pytest_configure(config):
    try:
        install()
        STATE["installed"] = True
    except Exception as ex:
        STATE["installed"] = repr(ex)


def pytest_runtest_setup(item):
    CUR["test"] = item.nodeid
    STATE["tests"] += 1


def pytest_sessionfinish(session, exitstatus):
    out = os.environ.get("BVM_PYTEST_MONITOR_OUT")
    if out:
        with open(out, "w") as f:
            json.dump(STATE, f, indent=1)
