"""C08 - every way a connection ends leaves the node closed, released and restartable.

End-of-life monitor over termination cause x life-cycle point x schedule, under the deterministic scheduler."""
import random
import time

from bvm import harness, node as N, refcodec as R, scen, vsched

PROP = "C08"
RULE = ("termination cause in {local close, DPR from peer, abrupt peer disconnect, refused connection, peer reset} x "
        "life-cycle point in {during connect, before the capabilities exchange completes, Open idle, Open with queued inbound, "
        "Open with queued outbound, with an application task blocked in get_message, during Closing} x role x schedules "
        "(round robin, random walk with line-level preemption); oracle: within 60 virtual seconds the node reports Closed, "
        "its sockets are closed and unregistered, every task it created has finished, a blocked get_message has returned, "
        "no lock is owned by a finished task, and start() on the same object reaches Open again; "
        "distinct = (cause, point, role, schedule hash)")

CAUSES = ["local-close", "peer-dpr", "peer-disconnect", "peer-reset", "refused", "socket-error", "connect-error"]
POINTS = ["during-connect", "before-ce", "open-idle", "open-inbound-queued", "open-outbound-queued", "consumer-blocked", "closing",
          "submitter-active"]


def applicable(cause, point, role):
    if cause in ("refused", "socket-error", "connect-error"):
        return point == "during-connect" and role == "client"
    if point == "during-connect":
        return False
    if cause == "local-close" and point in ("before-ce",):
        return False        # close() before Open is a no-op by design (state_is_active is already False)
    if cause == "peer-dpr" and point in ("before-ce", "closing"):
        return False        # a DPR before the exchange / during Closing is a C06 soft cell
    if cause == "local-close" and point == "closing":
        return False
    return True


def execute(acc, case):
    from bromelia.base import DiameterMessage
    rng = random.Random(case["seed"])
    cause, point, role = case["cause"], case["point"], case["role"]
    sc = N.Scenario(seed=case["seed"], strategy=case["strategy"], p=case.get("p", 0.1), role=role, apps=[16777251],
                    lines=case["strategy"] != "rr" or case.get("park_psm") is not None, max_steps=700_000, wall_s=120, transport=case.get("transport", "TCP"))
    wit = {"case": case}
    if case.get("transport") == "SCTP":
        acc.counters["sctp_executions"] += 1      # SctpClient/SctpServer over a fake pysctp module (bvm/vnet.py)
    consumer_state = {"returned": None, "started": False}
    cause_applied = [False]
    with sc:
        scen.slow_ticker(0.001)
        try:
            s = sc.sched
            node = sc.make_node()
            # ---------------- reach the life-cycle point
            if cause == "refused":
                sc.client_start_in_task = True
                if case.get("connect_errno"):
                    # the attempt does not end in ECONNREFUSED but times out (ETIMEDOUT) or comes back unreachable (EHOSTUNREACH,
                    # ENETUNREACH): other OSError classes, the same obligation
                    sc.net.connect_fail_errno = case["connect_errno"]
                    acc.counters["connection_attempts_failing_with_another_errno"] += 1
                if case.get("park") is not None:
                    # the thread inside start() is descheduled at its k-th line while the state machine it has just started
                    # tests the connection, finds it refused and closes the association
                    s.parks.append({"task": "starter", "nth": case["park"], "release": lambda: sc.node._association is not None and sc.node._association.transport is None and sc.state() == "Closed", "timeout": 1.0})
                sc.start_node()         # nobody listens on the peer address
                s.run_until(lambda: sc.starter.done, 10.0, "start-returns")
            elif cause in ("socket-error", "connect-error"):
                # the set-up itself fails: no descriptor to be had (EMFILE), or connect_ex() raises (a peer host name that does not
                # resolve, a port given as a string); the library reports it from start() - nothing may be left running
                import errno
                sc.client_start_in_task = True
                sc.listen()
                if cause == "socket-error":
                    sc.net.socket_failures = [OSError(errno.EMFILE, "Too many open files")]
                else:
                    sc.net.connect_failures = [(__import__("socket").gaierror(-2, "Name or service not known"), TypeError("'str' object cannot be interpreted as an integer"))[case["seed"] % 2]]
                sc.start_node()
                s.run_until(lambda: sc.starter.done, 10.0, "start-returns")
                sc.net.socket_failures = sc.net.connect_failures = None
                acc.counters["setup_failures_injected"] += 1
            else:
                if role == "client":
                    sc.listen()
                sc.start_node()
                if not sc.connect_transport():
                    acc.inconclusive.append("transport set-up failed (%r)" % (case,))
                    return
                if point != "before-ce":
                    if role == "client":
                        s.run_until(lambda: sc._have_emitted(1), 20, "cer")
                        m = sc.read_emitted()
                        sc.inject(R.encode(N.cea(hbh=m[0].hbh, e2e=m[0].e2e, apps=sc.apps)))
                    else:
                        sc.inject(R.encode(N.cer(apps=sc.apps, hbh=5, e2e=6)))
                    if not s.run_until(lambda: node.is_open(), 20, "open"):
                        acc.inconclusive.append("node did not open (%r)" % (case,))
                        return
                    sc.read_emitted()
                elif role == "client":
                    s.run_until(lambda: sc._have_emitted(1), 20, "cer")
                    sc.read_emitted()
                if point == "open-inbound-queued":
                    sc.inject(b"".join(R.encode(N.app_request(100 + k, dest_realm=N.LOCAL[1])) for k in range(5)) + R.encode(N.dwr(hbh=9, e2e=9)))
                    s.run_until(lambda: False, rng.choice([0.0, 0.0005, 0.002]), "inbound-lands")
                if point == "open-outbound-queued":
                    sc.net.write_len = lambda sock, n: min(n, 16)
                    big = DiameterMessage.load(R.encode(N.app_request(555, size=3000, host=N.LOCAL[0], realm=N.LOCAL[1], dest_realm=N.PEER[1])))[0]
                    for _ in range(3):
                        node.send_message(big)
                    s.run_until(lambda: False, 0.001, "outbound-queued")
                if point == "consumer-blocked":
                    def consumer():
                        consumer_state["started"] = True
                        consumer_state["returned"] = ("value", node.get_message())
                    if case.get("park") is not None:
                        s.parks.append({"task": "consumer", "nth": case["park"], "release": lambda: sc.state() == "Closed", "timeout": 2.0})
                    sc.sched.spawn("consumer", consumer)
                    s.run_until(lambda: False, 0.01, "consumer-blocks")
                if point == "submitter-active":
                    # an application task keeps submitting while the connection ends; its calls may fail, they must not block
                    small = DiameterMessage.load(R.encode(N.app_request(556, size=10, host=N.LOCAL[0], realm=N.LOCAL[1], dest_realm=N.PEER[1])))[0]
                    sub_state = {"calls": 0, "errors": 0, "done": False}

                    def submitter():
                        for _ in range(400):
                            try:
                                node.send_message(small)
                            except BaseException as ex:
                                if isinstance(ex, vsched.ControlException):
                                    raise
                                sub_state["errors"] += 1
                            sub_state["calls"] += 1
                            s.sleep(0.0005)
                        sub_state["done"] = True
                    if case.get("park") is not None:
                        # the application thread is descheduled at its n-th source line inside the library until the connection has ended
                        s.parks.append({"task": "consumer", "nth": case["park"], "release": lambda: sc.state() == "Closed", "timeout": 2.0})     # 2 virtual s at most: it may be holding the association lock
                    sc.sched.spawn("consumer", submitter)      # named like the consumer so that it is not counted as a node task
                    s.run_until(lambda: sub_state["calls"] > 3, 1.0, "submitting")
                if point == "open-inbound-in-progress":
                    # the connection ends while the state-machine thread is in the middle of handling a message that has just
                    # come in (a CER on the open connection, a DWR, an application request): the thread stands at the k-th line of
                    # the handling functions until the cause has been applied, then goes on
                    kind = case["inflight"]
                    psm_name = "client_psm_thread" if role == "client" else "server_psm_thread"
                    s.parks.append({"task": psm_name, "nth": case["park_psm"], "timeout": 0.05, "release": lambda: cause_applied[0],
                                    "funcs": {"event_open_rcv_cer", "event_open_rcv_dwr", "event_open_rcv_message", "event_open_rcv_dwa", "create_answer",
                                              "send_message", "set_open_state", "notify_postprocess_message", "get_message", "is_valid_capability_exchange",
                                              "is_valid_device_watchdog", "process_request"}})
                    sc.inject(R.encode({"CER": N.cer(apps=sc.apps, hbh=31, e2e=32), "DWR": N.dwr(hbh=33, e2e=34),
                                        "APP": N.app_request(120, dest_realm=N.LOCAL[1])}[kind]))
                    s.run_until(lambda: bool(s.parked_at), 0.05, "psm-parks-inside-the-handler")
                    if s.parked_at:
                        acc.counters["state_machine_parked_inside_a_handler_across_the_end"] += 1
                if point == "closing":
                    node.close()
                    s.run_until(lambda: node.get_current_state() == "Closing", 5, "closing")
            # ---------------- the termination cause
            t_cause = s.now
            if cause == "local-close":
                node.close()
                cause_applied[0] = True
                s.run_until(lambda: sc._have_emitted(1) and any(N.name_of(m) == "DPR" for m in sc.read_emitted()) or sc.state() == "Closed", 20, "dpr")
                d = [m for m in sc.emitted_msgs if N.name_of(m) == "DPR"]
                if d:
                    sc.inject(R.encode(N.dpa(hbh=d[-1].hbh, e2e=d[-1].e2e)))
            elif cause == "peer-dpr":
                # any Disconnect-Cause the peer may give (REBOOTING, BUSY, DO_NOT_WANT_TO_TALK_TO_YOU): the peer is leaving either way
                sc.inject(R.encode(N.dpr(hbh=77, e2e=78, cause=case.get("dpr_cause", 0))))
            elif cause == "peer-disconnect":
                sc.peer_sock.close()
            elif cause == "peer-reset":
                sc.node_sock.reset = True
                sc.peer_sock.close()
            cause_applied[0] = True
            # ---------------- end-of-life conditions
            node_tasks = lambda: [t for t in s.live_tasks() if t.name != "consumer"]
            ended = s.run_until(lambda: sc.state() == "Closed" and not node_tasks(), 60.0, "end-of-life")
            acc.counters["executions"] += 1
            if s.parked_at:
                acc.counters["application_thread_parked_across_the_end"] += 1
                acc.extra.setdefault("parked_at", {})
                acc.extra["parked_at"][s.parked_at[0][1]] = acc.extra["parked_at"].get(s.parked_at[0][1], 0) + 1
            open_socks = [repr(x) for x in sc.net.open_sockets()]
            registered = [repr(x) for x in sc.net.registered() if not x.harness_side]
            dead_owner = [l.name for l in s.locks if l.owner is not None and l.owner.done]
            wit.update({"state": sc.state(), "live_tasks": [t.name + ":" + str(t.why) for t in node_tasks()], "open_sockets": open_socks,
                        "registered": registered, "locks_owned_by_finished_tasks": dead_owner, "deaths": s.deaths,
                        "lock_owners": [(l.name, l.owner.name if l.owner is not None else None) for l in s.locks if l.owner is not None],
                        "virtual_seconds": round(s.now - t_cause, 2), "schedule": s.schedule_hash(), "choices": s.choices[:2000]})
            tag = "%s@%s" % (cause, point)
            if s.deaths:
                d = s.deaths[0]
                acc.violation("task-died:%s:%s" % (d["task"].replace("client_", "").replace("server_", ""), d["type"]),
                              "%s died with %s (%s): %s" % (d["task"], d["exc"], tag, d["traceback"][-400:]), wit)
                return
            if cause in ("socket-error", "connect-error"):
                wit["start_result"] = repr(sc.start_result)
            if cause == "refused" and isinstance(sc.start_result, BaseException) and not type(sc.start_result).__module__.startswith("bromelia"):
                acc.violation("start-raises-%s-on-refused-connection" % type(sc.start_result).__name__,
                              "start() raised %r to the application while the connection was being refused" % (sc.start_result,), wit)
                return
            if sc.state() != "Closed":
                acc.violation("not-closed:%s" % tag, "state %s %.1f virtual s after %s" % (sc.state(), s.now - t_cause, tag), wit)
                return
            if node_tasks():
                acc.violation("tasks-still-alive:%s:%s" % (tag, ",".join(sorted({t.name.replace("client_", "").replace("server_", "") for t in node_tasks()}))),
                              "tasks %s still alive after %s" % (wit["live_tasks"], tag), wit)
                return
            if open_socks or registered:
                acc.violation("sockets-not-released:%s" % tag, "open %s registered %s" % (open_socks, registered), wit)
                return
            if dead_owner:
                acc.violation("lock-owned-by-finished-task:%s" % tag, "locks %s" % dead_owner, wit)
                return
            if point == "submitter-active":
                s.run_until(lambda: sub_state["done"], 10.0, "submitter-finishes")
                if not sub_state["done"]:
                    acc.violation("send-message-blocks-after-connection-ended:%s" % cause, "an application task calling send_message() around the end of the connection is blocked: %s" % s.blocked_report(),
                                  dict(wit, blocked=s.blocked_report(), calls=sub_state["calls"]))
                    return
                acc.counters["submitter_survived"] += 1
            if point == "consumer-blocked":
                s.run_until(lambda: consumer_state["returned"] is not None, 10.0, "consumer-returns")
                if consumer_state["returned"] is None:
                    acc.violation("blocked-get-message-never-returns:%s" % cause, "a task blocked in get_message() is still blocked after the connection ended (%s)" % cause,
                                  dict(wit, blocked=s.blocked_report()))
                    return
                acc.counters["consumer_returned"] += 1
            # ---------------- what came in before the end may still be fetched; after that get_message() says "over" - it never blocks
            if cause not in ("refused", "socket-error", "connect-error") and node._association is not None:
                drained = {"n": 0, "done": False}

                def drain():
                    for _ in range(40):
                        if node.get_message() is None:
                            break
                        drained["n"] += 1
                    drained["done"] = True
                s.spawn("consumer", drain)      # named like the consumer: it is the application's thread, not the node's
                s.run_until(lambda: drained["done"], 10.0, "drain-after-close")
                if not drained["done"]:
                    acc.violation("get-message-after-the-end-never-returns:%s" % cause, "after %s the application fetched %d queued message(s); its next get_message() call is still blocked: %s" % (
                        tag, drained["n"], s.blocked_report()), dict(wit, fetched=drained["n"], blocked=s.blocked_report()))
                    return
                acc.counters["drained_after_the_end"] += 1
                if drained["n"]:
                    acc.counters["messages_fetched_after_the_end"] += drained["n"]
            # ---------------- restart on the same object
            sc.peer_sock = sc.node_sock = None
            sc.net.write_len = None
            sc.emitted_buf = bytearray()
            if role == "client" and sc.lsock is None:
                sc.listen()
            sc.starter = None
            try:
                ok = sc.open()
            except BaseException as ex:
                if isinstance(ex, vsched.ControlException):
                    raise
                acc.violation("restart-raises:%s" % type(ex).__name__, "start() on the same object raised %r after %s" % (ex, tag), wit)
                return
            if not ok:
                acc.violation("restart-does-not-open:%s" % tag, "second start() on the same object did not reach Open (state %s)" % sc.state(), wit)
                return
            acc.counters["restarts_ok"] += 1
        except vsched.DeadlockError as ex:
            acc.violation("deadlock:%s@%s" % (cause, point), "deadlock: %s" % ex, dict(wit, stacks=sc.sched.stacks()))
        except vsched.WallClock as ex:
            acc.inconclusive.append("%s (case %r)" % (ex, case))
        except vsched.StepBudget as ex:
            spin = sc.sched.now < 5.0
            acc.violation("spin:%s@%s" % (cause, point) if spin else "step-budget:%s@%s" % (cause, point),
                          "%s; tasks %s" % (ex, sc.sched.blocked_report()), dict(wit, stacks=sc.sched.stacks()))
        cov = sc.coverage()
    acc.evaluations += 1
    acc.sigs.add(harness.sig_hash("%s/%s/%s/%s" % (cause, point, role, cov["schedule"])))
    acc.counters["steps"] += cov["steps"]
    acc.extra.setdefault("cells", {})
    k = "%s@%s/%s" % (cause, point, role)
    acc.extra["cells"][k] = acc.extra["cells"].get(k, 0) + 1
    acc.sample({"case": case}, limit=3)


def run_batch(b):
    acc = harness.Acc()
    if b.get("real"):
        from bvm import realnet
        realnet.run_cases(acc, b["real"])
        return acc
    for case in b["cases"]:
        if case.get("twin"):
            from bvm import twin
            twin.twin_lifecycle(acc, case)
        else:
            execute(acc, case)
    return acc


def main(tier, seed):
    t0 = time.time()
    q = tier == "quick"
    rng = random.Random(seed)
    cases = []
    reps = 3 if q else 400
    for cause in CAUSES:
        for point in POINTS:
            for role in ("client", "server"):
                if not applicable(cause, point, role):
                    continue
                for i in range(reps):
                    cases.append({"seed": seed * 7919 + len(cases), "cause": cause, "point": point, "role": role,
                                  "strategy": "rr" if i == 0 else "rw", "p": rng.choice([0.02, 0.1, 0.3]),
                                  "transport": "SCTP" if (i % 3 == 2 and cause not in ("refused", "socket-error", "connect-error")) else "TCP",
                                  "dpr_cause": (0, 1, 2)[i % 3] if cause == "peer-dpr" else 0})
    # application threads inside send_message()/get_message() while the connection ends: the windows are single source lines,
    # so these two points get many more line-level schedules than the rest
    for point in ("submitter-active", "consumer-blocked"):
        for cause in ("local-close", "peer-dpr", "peer-disconnect", "peer-reset"):
            for role in ("client", "server"):
                for i in range(12 if q else 300):
                    cases.append({"seed": seed * 7919 + len(cases), "cause": cause, "point": point, "role": role, "strategy": "rw",
                                  "p": rng.choice([0.3, 0.5, 0.5]), "transport": "TCP", "dpr_cause": i % 3 if cause == "peer-dpr" else 0,
                                  "park": None})
    # ... and the same application thread descheduled once at each of the first source lines it executes inside the library
    # (one send_message() call is about 46 lines), for every cause: a systematic sweep instead of hoping for the random walk
    for cause in ("local-close", "peer-dpr", "peer-disconnect", "peer-reset"):
        for nth in range(0, 60 if q else 140):
            for role in (("client", "server")[nth % 2],) if q else ("client", "server"):
                cases.append({"seed": seed * 7919 + len(cases), "cause": cause, "point": "submitter-active", "role": role, "strategy": "rw",
                              "p": 0.02, "transport": "TCP", "dpr_cause": nth % 3 if cause == "peer-dpr" else 0, "park": nth})
        for nth in range(0, 14):       # get_message() up to its wait is a dozen lines
            for role in ("client", "server"):
                cases.append({"seed": seed * 7919 + len(cases), "cause": cause, "point": "consumer-blocked", "role": role, "strategy": "rw",
                              "p": 0.02, "transport": "TCP", "dpr_cause": nth % 3 if cause == "peer-dpr" else 0, "park": nth})
    import errno as _errno
    for i, en in enumerate((_errno.ETIMEDOUT, _errno.EHOSTUNREACH, _errno.ENETUNREACH, _errno.ECONNRESET) * (2 if q else 20)):
        cases.append({"seed": seed * 7919 + len(cases), "cause": "refused", "point": "during-connect", "role": "client", "strategy": ("rr", "rw")[i % 2], "p": 0.1,
                      "transport": "TCP", "connect_errno": en})
    for kind in ("CER", "DWR", "APP"):
        for cause in ("local-close", "peer-disconnect", "peer-dpr"):
            for nth in range(0, 40, 2 if q else 1):
                for role in (("client", "server")[(nth // 2) % 2],) if q else ("client", "server"):
                    cases.append({"seed": seed * 7919 + len(cases), "cause": cause, "point": "open-inbound-in-progress", "role": role, "strategy": "rr",
                                  "transport": "TCP", "dpr_cause": 0, "inflight": kind, "park_psm": nth})
    for nth in range(0, 130 if q else 160):
        cases.append({"seed": seed * 7919 + len(cases), "cause": "refused", "point": "during-connect", "role": "client", "strategy": "rw", "p": 0.02,
                      "transport": "TCP", "park": nth})
    # a second node object in the same process: one connection ends (and is restarted) beside an open one, then the other ends
    for i in range(16 if q else 320):
        cases.append({"twin": True, "seed": seed * 3307 + i, "cause": ("local-close", "peer-dpr", "peer-disconnect", "peer-reset")[i % 4], "end_first": "AB"[(i // 4) % 2],
                      "busy": (i // 8) % 2 == 1, "cause2": ("local-close", "peer-disconnect", "peer-dpr")[i % 3], "strategy": "rr" if i % 5 == 0 else "rw", "p": rng.choice([0.02, 0.1])})
    rng.shuffle(cases)
    nb = 16 if q else 64
    batches = [{"cases": cases[i::nb]} for i in range(nb)]
    # real loopback (bvm/realnet.py): nothing substituted; each cause x role, then a restart of the same object and a clean close
    real = [{"kind": "lifecycle", "seed": seed * 131 + k, "role": role, "cause": cause}
            for k in range(1 if q else 6) for cause in ("local-close", "peer-dpr", "peer-disconnect", "peer-reset", "peer-reset-outbound", "refused", "pre-ce-disconnect", "context-retry")
            for role in ("client", "server") if not (cause in ("refused", "context-retry") and role == "server") and not (cause == "pre-ce-disconnect" and role == "client")]
    nrb = 13 if q else 16
    for i in range(nrb):
        if real[i::nrb]:
            batches.append({"real": real[i::nrb]})
    acc = harness.run_workers("checks.c08_end_of_life", "run_batch", batches, 3400)
    harness.require_vnet_fidelity(acc)
    cells = acc.extra.pop("cells", {})
    return harness.finish(PROP, tier, seed, "fault_enumeration", acc, RULE,
                          ["bounds are on the virtual clock (60 s) and the step counter; a wall-clock watchdog firing is inconclusive",
                           "refused connection follows Linux semantics observed on the real loopback: first send() raises ConnectionRefusedError, later ones BrokenPipeError",
                           "combinations the statement does not reach (close() before Open is a no-op, DPR outside Open) are left to C06's soft cells"],
                          t0, extra_cov={"cells": cells}, require_counters=("state_machine_parked_inside_a_handler_across_the_end", "connection_attempts_failing_with_another_errno", "executions", "restarts_ok", "consumer_returned", "real_loopback_ok", "twin_node_executions", "other_node_still_working", "setup_failures_injected", "drained_after_the_end"))


def replay(w):
    acc = harness.Acc()
    if w["witness"]["case"].get("twin"):
        from bvm import twin
        twin.twin_lifecycle(acc, w["witness"]["case"])
    else:
        execute(acc, w["witness"]["case"])
    for v in acc.violations:
        print("VIOLATION property=C08 replay=<this>", v["key"], v["what"][:400])
    return 1 if acc.violations else 0
