"""C06 - the peer state machine follows RFC 6733 and opens only for the configured peer.

Online trace checker: the real node (under the deterministic scheduler, round robin, virtual time) is driven through
event sequences and compared at quiescent points with a hand-written reference transition model (bvm/scen.py).
Hard clauses H1-H9 are violations; soft cells are reported as model drift only."""
import itertools
import random
import time

from bvm import harness, node as N, scen, vsched

PROP = "C06"
RULE = ("all event sequences over the 18-event alphabet {valid/other-host/odd-flag CER, CEA, DWR, DWA, DPR(valid/bad cause), "
        "DPA, addressed/misaddressed application request, application answer, local stop, peer disconnect, idle timeout} "
        "to depth D (2 quick, 3 thorough) from each of the model states {awaiting CER/CEA, Open, Closing}, both roles, "
        "0/1/3 configured applications, plus random sequences of length <= 10; sequences stop when the model reaches Closed; "
        "plus the capabilities exchange itself under random-walk schedules with line-level preemption (a valid exchange must open); "
        "oracle: reference transition model compared at quiescent points; distinct = distinct (role, apps, event sequence); "
        "states/transitions = model (state, event) cells exercised")

PREFIX = {"init": [], "open": ["@open"], "closing": ["@open", "local-stop"]}


def run_sequence(acc, case):
    role, apps, seq = case["role"], case["apps"], case["seq"]
    wd = 3
    sc = N.Scenario(seed=case.get("seed", 0), strategy="rr", role=role, apps=apps, watchdog=wd, max_steps=600_000, wall_s=90,
                    lines=bool(case.get("park_psm")))
    wit = {"case": case}
    cells = acc.extra.setdefault("cells", {})
    with sc:
        scen.slow_ticker(0.005)
        run = scen.Run(sc, wd)
        ticks = [0]
        from bromelia.statemachine import PeerStateMachine
        inner = PeerStateMachine.get_next_state

        live = [False]
        h11 = []

        def counting(psm, nxt):
            ticks[0] += 1
            was = psm.current_state.name
            res = inner(psm, nxt)
            # H11 (online, at the transition itself): once the machine has left Closed, the tick that takes it back to Closed
            # releases the transport and ends the ticking - "Closed implies the transport has been released" at the moment
            # Closed is reported, not a few ticks later
            if nxt != "Closed":
                live[0] = True
            elif live[0] and not h11:
                tr = getattr(psm.association, "transport", None)
                if tr is not None or psm.is_running:
                    h11.append("transition %s -> Closed left transport=%s is_running=%r" % (was, "held" if tr is not None else "released", psm.is_running))
            return res
        PeerStateMachine.get_next_state = counting
        trace = []
        try:
            if not run.connect():
                acc.inconclusive.append("transport set-up failed for %r" % (case,))
                return
            for ev in seq:
                if ev == "@open":
                    ev = "CER" if role == "server" else "CEA"
                model = run.model
                if model in (scen.CLOSED, scen.DEAD):
                    break
                exp = scen.model_step(model, ev, role)
                t0 = ticks[0]
                if case.get("park_psm") and len(trace) == case["park_psm"][0]:
                    # park sweep (DESIGN 2.5b): the state-machine thread is stopped at the k-th source line of its tick; the event
                    # lands (and is digested by the transport thread and the receive worker) while it stands there; it resumes
                    # mid-tick at most 20 virtual ms later, well inside the settling time of the observation
                    psm = run.psm_task()
                    applied = [False]
                    assoc = sc.node._association

                    def handled():
                        tr = assoc.transport if assoc is not None else None
                        return applied[0] and not sc.node_sock.rx and (tr is None or not tr._recv_data_stream)
                    if case.get("pre") and sc.node_sock is not None and not sc.node_sock.closed:
                        # a message from the peer is on its way in (not waited for): the parked tick may be the one that handles it
                        sc.inject(scen.event_bytes(case["pre"], run.ids)[0])
                    if psm is not None and not psm.done:
                        sc.sched.parks.append({"task": psm.name, "nth": case["park_psm"][1],
                                               "release": handled, "timeout": 0.02})
                        sc.sched.run_until(lambda: psm.why == "parked" or psm.done, 0.05, "psm-parks")
                        if psm.why == "parked":
                            acc.counters["events_landed_on_a_parked_state_machine"] += 1
                            acc.extra.setdefault("parked_at", {})
                            kk = sc.sched.parked_at[-1][1] if sc.sched.parked_at else "?"
                            acc.extra["parked_at"][kk] = acc.extra["parked_at"].get(kk, 0) + 1
                    applied[0] = True
                obs = run.apply(ev)
                trace.append({"event": ev, "model_before": model, "state_after": obs["state_after"], "emitted": obs["emitted"],
                              "delivered": [d[2] for d in obs["delivered"]], "elapsed": obs["elapsed"]})
                wit["trace"] = trace
                acc.counters["events_applied"] += 1
                cell = "%s|%s" % (model, ev)
                cells[cell] = cells.get(cell, 0) + 1
                got = scen.reported_to_model(obs["state_after"])
                # H8: no event makes the state machine raise or stop ticking
                if obs["deaths"]:
                    d = obs["deaths"][0]
                    acc.violation("task-died:%s:%s:on-%s-in-%s" % (d["task"].replace("client_", "").replace("server_", ""), d["type"], ev, model),
                                  "%s died with %s on event %s in model state %s: %s" % (d["task"], d["exc"], ev, model, d["traceback"][-400:]), wit)
                    return
                if h11:
                    acc.violation("closed-reported-with-transport-not-released:on-%s-in-%s" % (ev, model), h11[0], wit)
                    return
                psm = run.psm_task()
                final = exp["next"] in (scen.CLOSED, scen.DEAD) or got == scen.CLOSED
                if not final and (psm is None or psm.done or ticks[0] == t0):
                    acc.violation("state-machine-stopped-ticking:on-%s-in-%s" % (ev, model),
                                  "state machine task done=%r ticks during event=%d" % (psm.done if psm else None, ticks[0] - t0), wit)
                    return
                # H7
                bad = [d for d in obs["delivered"] if d[0] != scen.OPEN]
                if bad:
                    acc.violation("delivered-outside-open:in-%s" % bad[0][0], "message %s handed to the application while the model state was %s" % (bad[0][2], bad[0][0]), wit)
                    return
                # H10: local consumption (RFC 6733 6.1.4) - in Open, a request addressed to this node (by host, by realm, by both)
                # is handed to the application, one addressed to another host or realm is not
                if model == scen.OPEN and ev == "APP-req-host-only":
                    acc.observe("host-only-request-handed-over-%d-times" % len([d for d in obs["delivered"] if d[2] == obs["ids"][0]]))
                if model == scen.OPEN and ev in scen.FOR_THIS_NODE + scen.FOR_ANOTHER_NODE:
                    mine = [d for d in obs["delivered"] if d[2] == obs["ids"][0]]
                    acc.counters["addressing_judged"] += 1
                    if ev in scen.FOR_THIS_NODE and len(mine) != 1:
                        acc.violation("request-for-this-node-handed-over-%d-times:on-%s" % (len(mine), ev), "in Open, %s was handed to the application %d times" % (ev, len(mine)), wit)
                        return
                    if ev in scen.FOR_ANOTHER_NODE and mine:
                        acc.violation("request-for-another-node-handed-to-the-application:on-%s" % ev, "in Open, %s was handed to the application" % ev, wit)
                        return
                # H1
                if got == scen.OPEN and exp["next"] != scen.OPEN and model != scen.OPEN:
                    acc.violation("open-without-valid-capabilities-exchange:on-%s-in-%s" % (ev, model), "state %s reported after %s in %s" % (obs["state_after"], ev, model), wit)
                    return
                names = [e[0] for e in obs["emitted"]]
                if exp["hard"]:
                    acc.counters["hard_cells_judged"] += 1
                    if got != exp["next"]:
                        acc.violation("state-%s-expected-%s:on-%s-in-%s" % (got, exp["next"], ev, model),
                                      "after %s in %s the node reports %s, the model says %s" % (ev, model, obs["state_after"], exp["next"]), wit)
                        return
                    for need in exp["emit"]:
                        if need == "DWR+":
                            if names.count("DWR") < 1:
                                acc.violation("no-watchdog-after-idle-timeout", "no DWR within %s s of idleness (watchdog %d s)" % (obs["elapsed"], wd), wit)
                                return
                            # "a watchdog request after the configured timeout": one per timeout of idleness (plus slack for the
                            # boundaries of the observation window), not a stream of them
                            allowed = 2 + int(obs["elapsed"] // wd)
                            acc.counters["idle_periods_judged"] += 1
                            if names.count("DWR") > allowed:
                                acc.violation("watchdog-requests-flood-an-idle-connection", "%d DWRs within %s s of idleness (watchdog %d s; at most %d expected)" % (
                                    names.count("DWR"), obs["elapsed"], wd, allowed), wit)
                                return
                        elif need == "DPR":
                            if names.count("DPR") != 1:
                                acc.violation("local-stop-sends-%d-dpr" % names.count("DPR"), "local stop emitted %s" % names, wit)
                                return
                        else:
                            match = [e for e in obs["emitted"] if e[0] == need]
                            want_ids = run.cer_ids if False else obs["ids"]
                            if len(match) != 1 or (match[0][1], match[0][2]) != tuple(want_ids):
                                acc.violation("answer-%s-missing-or-wrong-ids:on-%s" % (need, ev), "emitted %s for request ids %s" % (obs["emitted"], want_ids), wit)
                                return
                    run.model = exp["next"]
                else:
                    # soft cell: report drift, then follow the implementation
                    same = got == exp["next"] or (exp["next"] in (scen.S_WAIT_CER, scen.DEAD) and got == scen.CLOSED)
                    drift = (not same) or any(n in names for n in ("CEA", "DPA", "DWA", "DPR")) != bool([x for x in exp["emit"] if x != "DWR+"])
                    if drift:
                        acc.observe("model-drift:%s|%s->%s%s" % (model, ev, got, names if names else ""))
                    if got in (scen.OPEN, scen.CLOSING, scen.CLOSED, scen.C_WAIT_CEA):
                        run.model = got if not (model == scen.S_WAIT_CER and got == scen.CLOSED) else (scen.DEAD if ev == "peer-disconnect" else scen.S_WAIT_CER)
                    else:
                        acc.observe("unmodelled-state:%s" % got)
                        break
                # H9 at final Closed after a connection existed
                if run.model == scen.CLOSED:
                    ns = sc.node_sock
                    reg = ns in sc.net.registered()
                    if not ns.closed or reg:
                        acc.violation("closed-with-transport-not-released:on-%s-in-%s" % (ev, model),
                                      "state Closed but the connection socket is closed=%r registered=%r" % (ns.closed, reg), wit)
                        return
                    acc.counters["h9_checked"] += 1
            acc.counters["sequences_completed"] += 1
        except vsched.DeadlockError as ex:
            acc.violation("deadlock", "deadlock: %s" % ex, dict(wit, stacks=sc.sched.stacks()))
        except vsched.WallClock as ex:
            acc.inconclusive.append("%s (case %r)" % (ex, case))
        except vsched.StepBudget as ex:
            acc.violation("spin-or-step-budget", "%s; tasks: %s" % (ex, sc.sched.blocked_report()), wit)
        finally:
            PeerStateMachine.get_next_state = inner
            run.unwrap()
    acc.evaluations += 1
    acc.sigs.add(harness.sig_hash("%s/%s/%s" % (role, len(apps), ",".join(seq))))
    acc.sample({"role": role, "apps": len(apps), "sequence": seq, "trace": [(t["event"], t["state_after"], [e[0] for e in t["emitted"]]) for t in trace]}, limit=3)


def run_open_under_schedule(acc, case):
    """The capabilities exchange itself, under randomised schedules with line-level preemption: a valid CEA/CER that
    the scripted peer sends as early as it can must open the connection (the model's hard cell Wait -> Open)."""
    role = case["role"]
    sc = N.Scenario(seed=case["seed"], strategy="rw", p=case["p"], role=role, apps=case["apps"], lines=True, max_steps=500_000, wall_s=60)
    wit = {"case": case}
    from bromelia.statemachine import WaitConnAck
    orig_ack = WaitConnAck.event_initiator_rcv_conn_ack
    with sc:
        if case.get("window") == "psm-parked-after-sending-cer":
            # directed schedule: the state-machine task is descheduled right after it has sent the CER (as an OS may do)
            # until the peer's CEA has been parsed into the receive queue, or 50 virtual ms at most
            def parked(st):
                orig_ack(st)
                sc.sched.block_until(lambda: not st.association._recv_messages.empty(), 0.05, "window:after-cer")
                acc.counters["window_psm_parked_after_cer"] += 1
            WaitConnAck.event_initiator_rcv_conn_ack = parked
        try:
            ok = sc.open(timeout=8)
            acc.counters["open_under_schedule"] += 1
            if sc.sched.deaths:
                d = sc.sched.deaths[0]
                acc.violation("task-died:%s:%s:during-capabilities-exchange" % (d["task"].replace("client_", "").replace("server_", ""), d["type"]), d["traceback"][-300:], wit)
            elif not ok:
                acc.violation("valid-capabilities-exchange-does-not-open:%s" % role,
                              "the peer completed a valid exchange but the node reports %s after 8 virtual seconds; consumed=%s tasks=%s" % (
                                  sc.state(), sc.consumed[-4:], sc.sched.blocked_report()),
                              dict(wit, schedule=sc.sched.schedule_hash(), choices=sc.sched.choices[:3000], transitions=sc.transitions))
        except vsched.DeadlockError as ex:
            acc.violation("deadlock-during-capabilities-exchange", "deadlock: %s" % ex, dict(wit, stacks=sc.sched.stacks()))
        except vsched.StepBudget as ex:
            acc.inconclusive.append("%s (case %r)" % (ex, case))
        finally:
            WaitConnAck.event_initiator_rcv_conn_ack = orig_ack
        h = sc.sched.schedule_hash()
    acc.evaluations += 1
    acc.sigs.add(harness.sig_hash("open/%s/%s/%s" % (role, case.get("window"), h)))


def run_batch(b):
    acc = harness.Acc()
    if b.get("real"):
        # real threads and kernel sockets, nothing substituted: random event sequences against the hard clauses of the same model
        from bvm import realnet
        realnet.run_cases(acc, b["real"])
        return acc
    for case in b["cases"]:
        if case.get("kind") == "open-sched":
            run_open_under_schedule(acc, case)
        else:
            run_sequence(acc, case)
    return acc


def plan(tier, seed):
    q = tier == "quick"
    rng = random.Random(seed)
    depth = 2 if q else 3
    cases = []
    app_sets = [[16777251]] if q else [[], [16777251], [16777251, 16777238, 4]]
    for role in ("client", "server"):
        for apps in app_sets:
            for start, prefix in PREFIX.items():
                for d in range(1, depth + 1):
                    for tail in itertools.product(scen.EVENTS + scen.EVENTS_OPT if d <= 2 else scen.EVENTS, repeat=d):
                        if q and d == 2 and (tail[1] in scen.EVENTS_OPT or (tail[0] in scen.EVENTS_OPT and tail[1] not in ("DWR", "APP-req", "local-stop", "peer-disconnect", "DPR"))):
                            continue        # quick: the variants with optional AVPs as first event, five follow-ups each
                        cases.append({"role": role, "apps": apps, "seq": prefix + list(tail)})
    # de-duplicate (shorter sequences are prefixes of longer ones: keep only maximal depth and depth-1 singles)
    if q:
        cases = [c for c in cases if len(c["seq"]) - len([e for e in c["seq"] if e.startswith("@")]) >= 1]
    for i in range(150 if q else 3000):
        role = rng.choice(["client", "server"])
        seq = ["@open"] if rng.random() < 0.8 else []
        seq += [rng.choice(scen.EVENTS + scen.EVENTS_OPT) for _ in range(rng.randrange(2, 10))]
        cases.append({"role": role, "apps": rng.choice([[], [16777251], [16777251, 4]]), "seq": seq, "seed": seed * 31 + i})
    # park sweep of the state-machine thread: each event lands while the thread stands at the k-th line of its tick
    for prefix, events in ((["@open"], ["local-stop", "local-stop+pending-inbound", "DPR", "DWR", "peer-disconnect", "APP-req", "DWA-echo", "CER"]),
                           (["@open", "local-stop"], ["DPA", "peer-disconnect", "DWR"]),
                           ([], ["@open", "peer-disconnect"])):
        for ev in events:
            for k in range(0, 90, 3 if q else 1):
                role = ("client", "server")[k % 2] if q else None
                for r in ([role] if role else ["client", "server"]):
                    cases.append({"role": r, "apps": [16777251], "seq": prefix + [ev], "park_psm": [len(prefix), k], "seed": seed * 17 + k})
    # ... and the two local/peer endings landing in the tick that is busy with a message that has just come in
    for pre in ("CER", "DWR", "APP-req", "APP-ans", "CEA"):
        for ev in ("local-stop", "peer-disconnect"):
            for k in range(0, 120, 3 if q else 1):
                role = ("client", "server")[(k // 3) % 2] if q else None
                for r in ([role] if role else ["client", "server"]):
                    cases.append({"role": r, "apps": [16777251], "seq": ["@open", ev], "park_psm": [1, k], "pre": pre, "seed": seed * 19 + k})
    for i in range(160 if q else 12000):
        role = rng.choice(["client", "server"])
        cases.append({"kind": "open-sched", "role": role, "apps": rng.choice([[], [16777251]]),
                      "seed": seed * 9973 + i, "p": rng.choice([0.02, 0.1, 0.3, 0.6]),
                      "window": "psm-parked-after-sending-cer" if role == "client" and i % 3 == 0 else None})
    rng.shuffle(cases)
    return cases, depth


def main(tier, seed):
    t0 = time.time()
    cases, depth = plan(tier, seed)
    nb = 16 if tier == "quick" else 96
    batches = [{"cases": cases[i::nb]} for i in range(nb)]
    q = tier == "quick"
    for i in range(6 if q else 16):
        batches.append({"real": [{"kind": "statemachine", "seed": seed * 977 + i * 29 + j, "role": ("client", "server")[(i + j) % 2]} for j in range(1 if q else 6)]})
    acc = harness.run_workers("checks.c06_statemachine", "run_batch", batches, 3400)
    harness.require_vnet_fidelity(acc)
    cells = acc.extra.pop("cells", {})
    return harness.finish(PROP, tier, seed, "exploration", acc, RULE,
                          ["the reference model's hard clauses are H1-H9 of DESIGN.md 3/C06; soft cells are reported as model drift and do not fail the check",
                           "comparison happens at quiescent points, not per tick; forced closes include the library's 4 s linger (virtual time)",
                           "the state-machine poll period is raised to 5 ms through the module constant; watchdog timeout 3 s; DWRs the node emits early are not judged",
                           "round-robin scheduling: this property quantifies over histories, not schedules"],
                          t0, extra_cov={"states": len({c.split("|")[0] for c in cells}), "transitions": len(cells),
                                         "cells_exercised": cells, "exhaustive_depth": depth},
                          exhaustive=True, require_counters=("events_applied", "hard_cells_judged", "h9_checked", "sequences_completed", "open_under_schedule", "real_loopback_ok", "events_landed_on_a_parked_state_machine", "idle_periods_judged", "addressing_judged"))


def replay(w):
    acc = harness.Acc()
    run_sequence(acc, w["witness"]["case"])
    for v in acc.violations:
        print("VIOLATION property=C06 replay=<this>", v["key"], v["what"][:400])
    return 1 if acc.violations else 0
