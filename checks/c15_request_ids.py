"""C15 - request identifiers are never reused within a process.

Uniqueness monitor with a scripted random source (bromelia.base.os.urandom is substituted in the harness
process).  Single-task histories here; the concurrent part runs under the controlled scheduler (see c15 'conc'
batches, enabled once bvm.vsched is importable)."""
import os as _os
import random
import time
import types

from bvm import harness, discover, msggen
from bvm.gen import Gen

PROP = "C15"
RULE = ("creation histories of up to N mixed creations (generic DiameterRequest, the typed request classes, answers, "
        "requests/answers from an explicit header) x random sources {os.urandom, 8-bit entropy, every value repeated r "
        "times, cyclic, previously-issued-value-first, values over a two-byte alphabet}; concurrent creation from 2..6 tasks under the deterministic "
        "scheduler with line-level preemption inside the two identifier functions; oracle: set membership over all "
        "issued ids + draw counting; distinct = (source, history shape) / distinct schedules")


class Source:
    def __init__(self, kind, rng):
        self.kind = kind
        self.rng = rng
        self.calls = 0
        self.issued = []
        self.queue = []
        self.counter = rng.randrange(2 ** 31)

    def urandom(self, n):
        self.calls += 1
        assert n == 4
        k = self.kind
        r = self.rng
        if k == "true":
            v = _os.urandom(4)
        elif k == "low8":
            v = bytes([0, 0, 0, r.randrange(256)])
        elif k.startswith("repeat"):
            rep = int(k[6:])
            if not self.queue:
                x = r.randrange(2 ** 32).to_bytes(4, "big")
                self.queue = [x] * rep
            v = self.queue.pop()
        elif k == "cyclic":
            self.counter = (self.counter + 1) % 4096
            v = (self.counter).to_bytes(4, "big")
        elif k == "previous-first":
            # hand back an already issued value first, then a fresh one
            if self.issued and self.calls % 2 == 1:
                v = r.choice(self.issued[-8:])
            else:
                v = r.randrange(2 ** 32).to_bytes(4, "big")
        elif k == "any-previous-first":
            # hand back a value issued at *any* earlier point of the process's life (the very first ones included), then a fresh one
            if self.issued and self.calls % 2 == 1:
                v = self.issued[r.randrange(min(len(self.issued), 64))] if r.random() < 0.5 else r.choice(self.issued)
            else:
                v = r.randrange(2 ** 32).to_bytes(4, "big")
        elif k == "two-byte-alphabet":
            # values made of two byte values only (00000001, 00000100, 01000000 ...): they repeat often, and each of them also
            # occurs *across the boundary* of two others written back to back - nothing but a whole earlier identifier is a reuse
            if not hasattr(self, "alphabet"):
                self.alphabet = r.choice([(0, 1), (0, 1), (0xaa, 0xbb), (0, 0xff), (r.randrange(256), r.randrange(256))])
            if r.random() < 0.8:
                v = bytes(r.choice(self.alphabet) for _ in range(4))
            else:
                v = r.randrange(2 ** 32).to_bytes(4, "big")
        elif k == "zero-then-random":
            v = bytes(4) if self.calls % 3 else r.randrange(2 ** 32).to_bytes(4, "big")
        else:
            raise AssertionError(k)
        self.issued.append(v)
        if self.calls > 2_000_000:
            raise RuntimeError("draw bound exceeded")
        return v


def install(source):
    import bromelia.base as B
    shim = types.SimpleNamespace(urandom=source.urandom, path=_os.path, getcwd=_os.getcwd, getpid=_os.getpid)
    B.os = shim
    B.DiameterRequest.hop_by_hop_identifiers.clear()
    B.DiameterRequest.end_to_end_identifiers.clear()


def history(acc, g, kind, n, typed_requests, typed_answers):
    from bromelia.base import DiameterRequest, DiameterAnswer, DiameterHeader
    src = Source(kind, random.Random(g.rng.randrange(2 ** 30)))
    install(src)
    hbh, e2e = {}, {}
    trace = []
    r = g.rng
    limit = 180 if kind == "low8" else 60 if kind == "two-byte-alphabet" else n
    for step in range(limit):
        op = r.choice(["req", "req", "typed", "typed", "ans", "typed-ans", "req-hdr", "ans-hdr"])
        calls0 = src.calls
        regs0 = (len(DiameterRequest.hop_by_hop_identifiers), len(DiameterRequest.end_to_end_identifiers))
        try:
            if op == "req":
                m = DiameterRequest(command_code=r.randrange(1, 400), application_id=r.choice([0, 16777251]))
            elif op == "typed":
                lib, cls = r.choice(typed_requests)
                m = msggen.make_plan(g, lib, cls, subset="none").build()
            elif op == "ans":
                m = DiameterAnswer(command_code=r.randrange(1, 400))
            elif op == "typed-ans":
                lib, cls = r.choice(typed_answers)
                m = msggen.make_plan(g, lib, cls, subset="none").build()
            elif op == "req-hdr":
                m = DiameterRequest(header=DiameterHeader(command_code=5, hop_by_hop=r.randrange(2 ** 32), end_to_end=r.randrange(2 ** 32)))
            else:
                m = DiameterAnswer(header=DiameterHeader(command_code=5, hop_by_hop=r.randrange(2 ** 32), end_to_end=r.randrange(2 ** 32)))
        except BaseException as ex:
            if op in ("typed", "typed-ans"):
                acc.observe("typed-construction-rejected:%s" % type(ex).__name__)
                # a rejected construction may still have drawn identifiers: they simply must never be reused
                continue
            raise
        trace.append(op)
        acc.counters["creations"] += 1
        regs1 = (len(DiameterRequest.hop_by_hop_identifiers), len(DiameterRequest.end_to_end_identifiers))
        if op in ("req", "typed"):
            acc.counters["requests_judged"] += 1
            h, e = m.header.hop_by_hop, m.header.end_to_end
            wit = {"source": kind, "step": step, "trace_tail": trace[-12:], "hbh": h.hex(), "e2e": e.hex()}
            if h in hbh:
                acc.violation("hop-by-hop-reused", "Hop-by-Hop %s given to creations %d and %d (source %s)" % (h.hex(), hbh[h], step, kind), wit)
            if e in e2e:
                acc.violation("end-to-end-reused", "End-to-End %s given to creations %d and %d (source %s)" % (e.hex(), e2e[e], step, kind), wit)
            hbh[h] = step
            e2e[e] = step
            if not m.header.is_request():
                acc.violation("request-without-r-flag", "request created without R flag", wit)
        else:
            if src.calls != calls0 or regs1 != regs0:
                acc.violation("ids-consumed-by-%s" % op, "%s drew %d random values and changed the registries %r -> %r" % (
                    op, src.calls - calls0, regs0, regs1), {"source": kind, "op": op, "step": step})
    acc.evaluations += 1
    acc.sigs.add(harness.sig_hash("%s/%s" % (kind, "".join(o[0] + o[-1] for o in trace[:24]))))
    acc.extra.setdefault("draws_by_source", {})
    acc.extra["draws_by_source"][kind] = acc.extra["draws_by_source"].get(kind, 0) + src.calls
    return trace


def run_batch(b):
    acc = harness.Acc()
    g = Gen(b["seed"])
    mc = discover.message_classes()
    from bromelia.base import DiameterRequest
    treq = [(l, c) for l, c in mc if issubclass(c, DiameterRequest)]
    tans = [(l, c) for l, c in mc if not issubclass(c, DiameterRequest)]
    if b["kind"] == "hist":
        for kind in b["sources"]:
            for _ in range(b["reps"]):
                tr = history(acc, g, kind, b["n"], treq, tans)
        acc.sample({"source": kind, "history_head": tr[:12]})
    elif b["kind"] == "conc":
        from checks import conc_c15 as c15_conc
        c15_conc.run(acc, b)
    return acc


def main(tier, seed):
    t0 = time.time()
    q = tier == "quick"
    sources = ["true", "low8", "repeat2", "repeat4", "repeat7", "cyclic", "previous-first", "zero-then-random", "two-byte-alphabet"]
    batches = []
    for i in range(4 if q else 16):
        # long lives: thousands of creations, with values from the beginning of the history coming back at the end
        batches.append({"kind": "hist", "sources": ["any-previous-first"], "reps": 1, "n": 2600 if q else 12000, "seed": seed * 11 + i})
    for i in range(8 if q else 32):
        batches.append({"kind": "hist", "sources": sources, "reps": 1 if q else 3, "n": 600 if q else 5000, "seed": seed * 7 + i})
    for i in range(2 if q else 16):
        batches.append({"kind": "hist", "sources": ["two-byte-alphabet"], "reps": 40 if q else 400, "n": 60, "seed": seed * 13 + i})
    try:
        from checks import conc_c15 as c15_conc
        batches += c15_conc.plan(tier, seed)
    except ImportError:
        pass
    acc = harness.run_workers("checks.c15_request_ids", "run_batch", batches, 1500)
    return harness.finish(PROP, tier, seed, "exploration", acc, RULE,
                          ["random sources that can never produce a fresh value are excluded (the draw-until-unused loop cannot terminate on them by design); a draw bound guards the loop",
                           "the id registries are process-global: every history starts from cleared registries in a fresh worker process"],
                          t0, require_counters=("creations", "requests_judged"))


def replay(w):
    print("witness:", w["witness"])
    return 1
