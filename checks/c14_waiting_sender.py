"""C14 - a waiting sender gets its own answer, matched by Hop-by-Hop id, and always wakes.

Rendezvous history checker under the deterministic scheduler: k caller tasks in Bromelia.send_message, the real
Worker.send_handler, a wire task answering in a scheduler-chosen order, dispatch through the real
create_message_thread / handler_pending_answers."""
import itertools
import random
import time

from bvm import harness, refcodec as R, node as N, vsched, appnode

PROP = "C14"
RULE = ("k in 1..6 concurrent callers x answer arrival orders (all permutations for k <= 4, random beyond; answers released "
        "immediately / after all requests were sent / in groups) x schedules (round robin; random walk with line-level "
        "preemption inside bromelia/bromelia.py, p in {0.05,0.2,0.5}); oracle: each caller's return value carries its own "
        "Hop-by-Hop and marker, no answer object reaches two callers, every caller whose answer was dispatched returns "
        "(deadlock detection / bounded progress on the virtual clock), the pending-answer registry is empty at the end; "
        "plus one caller sending the same request object repeatedly (same Hop-by-Hop), optionally after an attempt on a worker that was down; "
        "distinct = (k, arrival order, release policy, schedule hash)")


def execute(acc, case):
    import bromelia.bromelia as BB
    from bromelia.base import DiameterMessage
    rng = random.Random(case["seed"])
    k = case["k"]
    sched = vsched.Sched(seed=case["seed"], strategy=case["strategy"], p=case.get("p", 0.2), max_steps=300_000, wall_s=60)
    wit = {"case": case}
    h = None
    lp = None
    try:
        two = bool(case.get("two_workers"))
        h = appnode.AppHarness(sched, ["S6a", "Gx"] if two else ["S6a"])
        app = h.app
        worker = h.workers["S6a"]
        app_of = (lambda i: (16777238 if (two and i % 2 == 0) else 16777251))
        # with two connections the callers alternate between them and *share* Hop-by-Hop values pairwise: the identifier is
        # unique per connection only (such requests come from explicit headers, e.g. relayed messages)
        hbh_of = (lambda i: 0x5000 + (((i + 1) // 2) if two else i) * 7)
        if case["strategy"] != "rr":
            lp = vsched.LinePreemption(sched, files={BB.__file__}).__enter__()
        results = {}
        reqs = {}
        for i in range(1, k + 1):
            lm = N.app_request(i, app=app_of(i), host=appnode.LOCAL_HOST, realm=appnode.LOCAL_REALM, dest_realm="remote.example")
            lm.hbh = hbh_of(i)
            if case.get("cross_ids"):
                # Hop-by-Hop and End-to-End are separate identifier spaces: one caller's End-to-End value may equal
                # another caller's Hop-by-Hop value (answers echo both)
                lm.e2e = hbh_of(i % k + 1)
            reqs[i] = DiameterMessage.load(R.encode(lm))[0]

        def caller(i):
            results[i] = ("returned", app.send_message(reqs[i]))
        if case.get("park"):
            # park sweep (DESIGN 2.5b): one caller, or one of the library's answer-dispatch threads, is descheduled at its n-th
            # source line in bromelia.py until the rest of the exchange has gone as far as it can without it
            who, nth = case["park"]
            if who == "caller":
                sched.parks.append({"task": "caller1", "nth": nth, "timeout": 1.0, "release": lambda: len(results) >= k - 1})
            else:
                sched.parks.append({"task": "recv_answer_1", "nth": nth, "timeout": 0.5,
                                    "release": lambda: all(t.done or t.why == "parked" for t in sched.tasks if t.name.startswith("recv_answer_")) and len(answered) >= k})
        for i in range(1, k + 1):
            sched.spawn("caller%d" % i, caller, i)
        order = case["order"]
        policy = case["policy"]
        answered = []
        dispatch_threads = []

        def wire():
            seen = 0
            pending = []
            while len(answered) < k:
                sched.block_until(lambda: len(h.sent()) > seen or (policy != "immediate" and len(h.sent()) >= k), 5.0, "wire-wait")
                new = h.sent()[seen:]
                seen += len(new)
                for _, m in new:
                    pending.append(N.marker_of(R.decode(m.dump())[0]))
                if policy == "immediate":
                    todo, pending = pending, []
                elif policy == "after-all":
                    if seen < k:
                        continue
                    todo, pending = pending, []
                    todo.sort(key=lambda i: order.index(i))
                else:   # groups
                    if len(pending) < min(2, k - len(answered)):
                        continue
                    todo, pending = pending, []
                    rng.shuffle(todo)
                for i in todo:
                    am = N.app_answer(i, app=app_of(i), host="peer0.remote.example", realm="remote.example")
                    am.hbh = hbh_of(i)
                    if case.get("cross_ids"):
                        am.e2e = hbh_of(i % k + 1)
                    # answers come in many shapes: without Result-Code (Experimental-Result only, RFC 6733 7.6), with both,
                    # with the E flag, without Session-Id or origin - the waiter is matched by Hop-by-Hop alone
                    shape = rng.choice(["plain", "plain", "experimental-only", "no-result", "error-flag", "no-session-id", "only-marker"])
                    if shape in ("experimental-only", "no-result"):
                        am.avps = [a for a in am.avps if a.code != 268]
                    if shape == "experimental-only":
                        am.avps.insert(1, N.avp(297, R.encode_avp(N.avp(266, N.u32(10415))) + R.encode_avp(N.avp(298, N.u32(5001)))))
                    if shape == "error-flag":
                        am.flags |= 0x20
                    if shape == "no-session-id":
                        am.avps = [a for a in am.avps if a.code != 263]
                    if shape == "only-marker":
                        am.avps = [a for a in am.avps if a.code == 99990]
                    acc.counters["answer_shape_%s" % shape] += 1
                    ans = DiameterMessage.load(R.encode(am))[0]
                    answered.append(i)
                    dispatch_threads.append(app.create_message_thread(ans))
        wire_task = sched.spawn("wire", wire)
        all_back = sched.run_until(lambda: len(results) == k, 30.0, "callers-return")
        # quiescence: the wire task has handed over its last answer and every dispatch thread the library started (they
        # are registered with the scheduler under the library's own names) has finished
        sched.run_until(lambda: wire_task.done and all(t.done for t in sched.tasks if t.name.startswith("recv_answer_")), 5.0, "dispatch-finishes")
        acc.counters["executions"] += 1
        if case.get("cross_ids"):
            acc.counters["executions_with_overlapping_identifier_spaces"] += 1
        if sched.parked_at:
            acc.counters["task_parked_during_the_exchange"] += 1
            acc.extra.setdefault("parked_at", {})
            kk = "%s@%s" % sched.parked_at[0]
            acc.extra["parked_at"][kk] = acc.extra["parked_at"].get(kk, 0) + 1
        wit.update({"answered_order": answered, "returned": sorted(results), "tasks": sched.blocked_report(), "deaths": sched.deaths,
                    "schedule": sched.schedule_hash(), "choices": sched.choices[:3000]})
        objs = {}
        for i, (_, ans) in results.items():
            if ans is None:
                acc.violation("caller-got-none", "caller %d returned None" % i, wit)
                return
            try:
                lm = R.decode(ans.dump())[0]
            except BaseException:
                lm = None
            if lm is None or lm.hbh != reqs[i].header.get_hop_by_hop() or N.marker_of(lm) != i or lm.flags & 0x80:
                acc.violation("caller-got-foreign-answer", "caller %d (hop-by-hop %#x) was given a message with hop-by-hop %#x marker %r" % (
                    i, reqs[i].header.get_hop_by_hop(), lm.hbh if lm else -1, N.marker_of(lm) if lm else None), wit)
                return
            if id(ans) in objs:
                acc.violation("answer-delivered-twice", "the same answer object was returned to callers %d and %d" % (objs[id(ans)], i), wit)
                return
            objs[id(ans)] = i
        if not all_back:
            missing = sorted(set(range(1, k + 1)) - set(results))
            dispatched = [i for i in missing if i in answered]
            if dispatched:
                acc.violation("caller-never-woken", "callers %s are still blocked although their answers were dispatched (policy %s, order %s): %s" % (
                    dispatched, policy, answered, sched.blocked_report()), wit)
                return
            acc.violation("request-never-reached-the-wire", "callers %s blocked, their requests were never handed to the connection layer: %s" % (missing, sched.blocked_report()), wit)
            return
        left = sum(len(w.pending_answers) for w in h.workers.values())
        if left:
            acc.violation("pending-registry-not-empty", "%d entries left in the pending-answer registries" % left, wit)
            return
        if two:
            acc.counters["two_connection_executions"] += 1
        acc.counters["callers_matched"] += k
    except vsched.DeadlockError as ex:
        blocked = [t.name for t in sched.tasks if t.name.startswith("caller") and not t.done]
        acc.violation("caller-never-woken" if blocked else "deadlock", "deadlock with callers %s blocked: %s" % (blocked, ex), dict(wit, stacks=sched.stacks()))
    except vsched.WallClock as ex:
        acc.inconclusive.append("%s (case %r)" % (ex, case))
    except vsched.StepBudget as ex:
        acc.violation("spin", "%s; %s" % (ex, sched.blocked_report()), wit)
    finally:
        if lp is not None:
            lp.__exit__()
        if h is not None:
            h.cleanup()
        cov = sched.coverage()
        sched.shutdown()
    acc.evaluations += 1
    acc.sigs.add(harness.sig_hash("%d/%s/%s/%s" % (k, case["order"], case["policy"], cov["schedule"])))
    acc.counters["steps"] += cov["steps"]
    acc.counters["line_events"] += cov["line_events"]
    acc.sample({"case": case}, limit=3)


def execute_resubmit(acc, case):
    """One caller sends the *same* request object again and again (same Hop-by-Hop: a retransmission, or an application that
    polls with one request), optionally after an attempt made while the connection worker was down (that attempt returns
    without an answer and is not judged).  Every attempt made on a running worker is answered by the wire task; the caller must
    be given that attempt's answer every time, and the registry must be empty at the end."""
    import bromelia.bromelia as BB
    from bromelia.base import DiameterMessage
    rng = random.Random(case["seed"])
    sched = vsched.Sched(seed=case["seed"], strategy=case["strategy"], p=case.get("p", 0.2), max_steps=400_000, wall_s=60)
    wit = {"case": case}
    h = lp = None
    reps = case["reps"]
    try:
        h = appnode.AppHarness(sched, ["S6a"])
        app, worker = h.app, h.workers["S6a"]
        if case["strategy"] != "rr":
            lp = vsched.LinePreemption(sched, files={BB.__file__}).__enter__()
        lm = N.app_request(1, app=16777251, host=appnode.LOCAL_HOST, realm=appnode.LOCAL_REALM, dest_realm="remote.example")
        lm.hbh = 0x6100 + case["seed"] % 7
        req = DiameterMessage.load(R.encode(lm))[0]
        got = []
        down_result = []

        def caller():
            if case.get("down_first"):
                worker.is_open.clear()
                down_result.append(app.send_message(req))
                worker.is_open.set()
            for j in range(reps):
                got.append(app.send_message(req))
        answered = []

        def wire():
            seen = 0
            while len(answered) < reps:
                if not sched.block_until(lambda: len(h.sent()) > seen, 5.0, "wire-wait"):
                    return
                new = h.sent()[seen:]
                seen += len(new)
                for _ in new:
                    j = len(answered) + 1
                    am = N.app_answer(1000 + j, app=16777251, host="peer0.remote.example", realm="remote.example")
                    am.hbh = lm.hbh
                    answered.append(j)
                    app.create_message_thread(DiameterMessage.load(R.encode(am))[0])
        sched.spawn("caller1", caller)
        wire_task = sched.spawn("wire", wire)
        back = sched.run_until(lambda: len(got) == reps, 30.0, "resubmitting-caller-returns")
        sched.run_until(lambda: wire_task.done and all(t.done for t in sched.tasks if t.name.startswith("recv_answer_")), 5.0, "dispatch-finishes")
        acc.counters["executions"] += 1
        acc.counters["resubmission_executions"] += 1
        wit.update({"answered": answered, "returned": len(got), "down_attempt": [repr(x)[:60] for x in down_result], "tasks": sched.blocked_report(),
                    "deaths": sched.deaths, "schedule": sched.schedule_hash(), "choices": sched.choices[:3000]})
        for j, ans in enumerate(got, 1):
            try:
                la = R.decode(ans.dump())[0] if ans is not None else None
            except BaseException:
                la = None
            if la is None or la.flags & 0x80 or la.hbh != lm.hbh or N.marker_of(la) != 1000 + j:
                acc.violation("caller-got-foreign-answer:resubmitted-request" if ans is not None else "caller-got-none:resubmitted-request",
                              "attempt %d of the same request (hop-by-hop %#x) returned %s" % (j, lm.hbh, "marker %r flags %#x" % (N.marker_of(la), la.flags) if la else repr(ans)[:80]), wit)
                return
        if not back:
            if len(answered) > len(got):
                acc.violation("caller-never-woken:resubmitted-request", "attempt %d of the same request is still blocked although its answer was dispatched: %s" % (
                    len(got) + 1, sched.blocked_report()), wit)
            else:
                acc.violation("request-never-reached-the-wire:resubmitted-request", "attempt %d never reached the connection layer: %s" % (len(got) + 1, sched.blocked_report()), wit)
            return
        left = len(worker.pending_answers)
        if left:
            acc.violation("pending-registry-not-empty", "%d entries left in the pending-answer registry after %d attempts of one request" % (left, reps), wit)
            return
        acc.counters["callers_matched"] += reps
    except vsched.DeadlockError as ex:
        acc.violation("caller-never-woken:resubmitted-request", "deadlock after %d of %d attempts: %s" % (len(got), reps, ex), dict(wit, stacks=sched.stacks()))
    except vsched.WallClock as ex:
        acc.inconclusive.append("%s (case %r)" % (ex, case))
    except vsched.StepBudget as ex:
        acc.violation("spin", "%s; %s" % (ex, sched.blocked_report()), wit)
    finally:
        if lp is not None:
            lp.__exit__()
        if h is not None:
            h.cleanup()
        cov = sched.coverage()
        sched.shutdown()
    acc.evaluations += 1
    acc.sigs.add(harness.sig_hash("resubmit/%s/%s/%s" % (reps, case.get("down_first"), cov["schedule"])))
    acc.counters["steps"] += cov["steps"]
    acc.counters["line_events"] += cov["line_events"]


def run_batch(b):
    acc = harness.Acc()
    if b.get("real"):
        # the application layer as shipped: worker process, Manager queues, real loopback (bvm/realapp.py)
        from bvm import realnet
        realnet.run_cases(acc, b["real"])
        return acc
    for case in b["cases"]:
        if case.get("resubmit"):
            execute_resubmit(acc, case)
        else:
            execute(acc, case)
    return acc


def main(tier, seed):
    t0 = time.time()
    q = tier == "quick"
    rng = random.Random(seed)
    cases = []
    for k in (1, 2, 3, 4):
        for order in itertools.permutations(range(1, k + 1)):
            for policy in ("immediate", "after-all", "groups"):
                for strat in (["rr", "rw"] if q else ["rr", "rw", "rw", "rw", "rw", "rw"]):
                    cases.append({"seed": seed * 5003 + len(cases), "k": k, "order": list(order), "policy": policy, "strategy": strat,
                                  "p": rng.choice([0.05, 0.2, 0.5])})
    for i in range(60 if q else 24000):
        k = rng.choice([2, 3, 5, 6])
        order = list(range(1, k + 1))
        rng.shuffle(order)
        cases.append({"seed": seed * 5003 + 10000 + i, "k": k, "order": order, "policy": rng.choice(["immediate", "after-all", "groups"]),
                      "strategy": "rw", "p": rng.choice([0.05, 0.2, 0.5])})
    for i in range(40 if q else 4000):
        k = rng.choice([2, 3, 4, 6])
        order = list(range(1, k + 1))
        rng.shuffle(order)
        cases.append({"seed": seed * 5003 + 80000 + i, "k": k, "order": order, "policy": rng.choice(["immediate", "after-all", "groups"]),
                      "strategy": rng.choice(["rr", "rw"]), "p": rng.choice([0.05, 0.2]), "two_workers": True})
    for who, span in (("caller", 40), ("dispatch", 30)):
        for nth in range(0, span):
            for policy in (["after-all"] if q else ["immediate", "after-all", "groups"]):
                for k in ((3,) if q else (2, 3, 4)):
                    order = list(range(1, k + 1))
                    rng.shuffle(order)
                    cases.append({"seed": seed * 5003 + 50000 + len(cases), "k": k, "order": order, "policy": policy, "strategy": "rw", "p": 0.02,
                                  "park": [who, nth]})
    for i, c in enumerate(cases):
        if i % 3 == 1 and c["k"] > 1:
            c["cross_ids"] = True
    rng.shuffle(cases)
    for i in range(60 if q else 4000):
        cases.append({"resubmit": True, "seed": seed * 2003 + i, "reps": rng.choice([2, 3, 5]), "down_first": i % 3 == 0,
                      "strategy": "rr" if i % 6 == 0 else "rw", "p": rng.choice([0.05, 0.2, 0.5])})
    nb = 16 if q else 64
    batches = [{"cases": cases[i::nb]} for i in range(nb)]
    for i in range(3 if q else 40):
        # one execution per worker process: Bromelia.run() leaves a Manager and a worker process behind that a second run in the
        # same interpreter cannot share
        batches.append({"real": [{"kind": "app", "seed": seed * 389 + i * 23, "judge": "callers"}]})
    acc = harness.run_workers("checks.c14_waiting_sender", "run_batch", batches, 3000)
    return harness.finish(PROP, tier, seed, "exploration", acc, RULE,
                          ["in-process workers (fake manager); the multi-process deployment of Bromelia.run() is out of reach",
                           "bounded progress: every caller returns within 30 virtual seconds after its answer was dispatched; a deadlock found by the scheduler is definitive"],
                          t0, require_counters=("executions", "callers_matched", "steps", "real_loopback_ok", "task_parked_during_the_exchange", "two_connection_executions", "executions_with_overlapping_identifier_spaces", "resubmission_executions"))


def replay(w):
    acc = harness.Acc()
    execute(acc, w["witness"]["case"])
    for v in acc.violations:
        print("VIOLATION property=C14 replay=<this>", v["key"], v["what"][:400])
    return 1 if acc.violations else 0
