"""C02 - decoding preserves every field on the wire and re-encodes byte-identically.

Streams are produced by the independent reference encoder from generated logical content, so
the expected fields are known by construction."""
import time

from bvm import harness, discover, refcodec as R
from bvm.gen import Gen, lavp_depth

PROP = "C02"
RULE = ("well-formed streams of 1..8 messages built by the reference encoder: arbitrary header fields, every "
        "dictionary class with in-domain data under arbitrary flag bytes (V kept consistent with the vendor field), "
        "unknown (vendor, code) pairs, known codes under other vendors, nested Grouped with known and unknown "
        "members, empty-data AVPs; thorough adds the full 256-flag-byte x class grid; oracle: field-by-field "
        "comparison with the logical content, class expectation from the vendored dictionary, byte-identical "
        "re-dump; distinct = structural signature (class x flag-class x residue x depth x message count)")


def flag_class(fl):
    return "%s%s%s%s" % ("V" if fl & 0x80 else "-", "M" if fl & 0x40 else "-", "P" if fl & 0x20 else "-",
                         "r" if fl & 0x1f else "-")


def reflag(g, lavp, p=0.7):
    """Give an LAvp (and, recursively, its members) an arbitrary flag byte, V untouched."""
    if g.rng.random() < p:
        fl = g.rng.randrange(256)
        lavp.flags = (fl & 0x7f) | (lavp.flags & 0x80)
    if isinstance(lavp.value, list):
        for m in lavp.value:
            reflag(g, m, p)
    return lavp


def compare(acc, obj, lavp, rd, where, wit, depth=0):
    """Compare a decoded AVP object with the logical AVP it was encoded from. Returns True if equal."""
    from bromelia.base import DiameterAVP
    ok = True
    name = type(obj).__name__
    if lavp.vendor == 0 and type(obj) is not DiameterAVP:
        acc.violation("vendor-id-0-decoded-as-base-class", "%s: AVP with V flag and Vendor-ID 0, code %d decoded as %s; "
                      "Vendor-ID field lost" % (where, lavp.code, name), wit)
        return False
    exp_row = rd["by_pair"].get((lavp.vendor, lavp.code))
    data = R.avp_data(lavp)
    if obj.get_code() != lavp.code:
        acc.violation("decoded-code-differs", "%s: code %d, wire %d" % (where, obj.get_code(), lavp.code), wit)
        ok = False
    if obj.get_flags() != lavp.flags:
        # known mechanism only when the object carries exactly its class's default flags
        if exp_row and lavp.vendor != 0 and obj.get_flags() == exp_row["flags"]:
            key = "known-avp-flags-from-class-default"
        else:
            key = "decoded-flags-differ"
        acc.violation(key, "%s (%s): flags %#04x, wire %#04x" % (where, name, obj.get_flags(), lavp.flags), wit)
        ok = False
    gv = obj.get_vendor_id()
    if (lavp.vendor is None and obj.vendor_id is not None) or (lavp.vendor is not None and gv != lavp.vendor):
        acc.violation("decoded-vendor-differs", "%s (%s): vendor %r, wire %r" % (where, name, gv, lavp.vendor), wit)
        ok = False
    od = obj.data if obj.data is not None else b""
    if od != data:
        key = "decoded-data-differs"
        if exp_row and exp_row["type"] == "Grouped" and isinstance(lavp.value, list) \
                and od == R.avp_data(normalise(lavp, rd)):
            key = "known-avp-flags-from-class-default"      # same mechanism, seen through the re-serialised members
        acc.violation(key, "%s (%s): data %s, wire %s" % (where, name, od.hex()[:80], data.hex()[:80]), wit)
        ok = False
    if lavp.vendor != 0:   # V flag with Vendor-ID 0 is generated but its class expectation is not judged
        if exp_row:
            if name != exp_row["class"]:
                acc.violation("known-pair-not-materialised", "%s: (%r, %d) decoded as %s, dictionary class %s" % (
                    where, lavp.vendor, lavp.code, name, exp_row["class"]), wit)
                ok = False
        elif type(obj) is not DiameterAVP:
            acc.violation("unknown-pair-materialised", "%s: unknown (%r, %d) decoded as %s" % (where, lavp.vendor, lavp.code, name), wit)
            ok = False
    else:
        acc.observe("vendor-id-0-with-V-flag")
    if exp_row and exp_row["type"] == "Grouped" and isinstance(lavp.value, list) and hasattr(obj, "avps"):
        members = list(obj.avps)
        if len(members) != len(lavp.value):
            acc.violation("grouped-member-count", "%s: %d members, wire %d" % (where, len(members), len(lavp.value)), wit)
            return False
        for i, (mo, ml) in enumerate(zip(members, lavp.value)):
            ok = compare(acc, mo, ml, rd, where + "[%d]" % i, wit, depth + 1) and ok
    return ok


def check_stream(acc, g, rd, lmsgs, sigbase, api="message"):
    from bromelia.base import DiameterMessage, DiameterAVP
    stream = R.encode_stream(lmsgs)
    wit = {"stream": stream.hex(), "messages": [m.to_json() for m in lmsgs]}
    acc.counters["load_calls"] += 1
    try:
        msgs = DiameterMessage.load(stream)
    except BaseException as ex:
        acc.violation("well-formed-stream-rejected", "load raised %s: %s" % (type(ex).__name__, ex), wit)
        return
    if len(msgs) != len(lmsgs):
        acc.violation("message-count-differs", "%d messages decoded, %d encoded" % (len(msgs), len(lmsgs)), wit)
        return
    for k, (m, lm) in enumerate(zip(msgs, lmsgs)):
        got = (m.get_version(), m.get_flags(), m.get_command_code(), m.get_application_id(), m.get_hop_by_hop(),
               m.get_end_to_end(), m.get_length())
        want = (lm.version, lm.flags, lm.code, lm.app_id, lm.hbh, lm.e2e, len(R.encode(lm)))
        if got != want:
            acc.violation("decoded-header-differs", "message %d header %r, wire %r" % (k, got, want), wit)
        avps = m.avps
        if len(avps) != len(lm.avps):
            acc.violation("avp-count-differs", "message %d: %d AVPs decoded, %d encoded" % (k, len(avps), len(lm.avps)), wit)
            continue
        for i, (o, l) in enumerate(zip(avps, lm.avps)):
            compare(acc, o, l, rd, "msg%d.avp%d" % (k, i), wit)
        acc.counters["redump_checks"] += 1
        try:
            red = m.dump()
        except BaseException as ex:
            acc.violation("redump-raises", "message %d: dump() of decoded message raised %r" % (k, ex), wit)
            continue
        if red != R.encode(lm) and any(a.vendor == 0 and type(o) is not DiameterAVP for o, a in zip(avps, lm.avps)):
            pass    # already reported as vendor-id-0-decoded-as-base-class
        elif red != R.encode(lm):
            norm = R.LMsg.from_json(lm.to_json())
            norm.avps = [normalise(a, rd) for a in norm.avps]
            flagsonly = red == R.encode(norm)
            acc.violation("known-avp-flags-from-class-default" if flagsonly else "redump-differs",
                          "message %d: re-serialised bytes differ from the original at offset %d" % (
                              k, next((j for j in range(min(len(red), len(R.encode(lm)))) if red[j] != R.encode(lm)[j]), -1)), wit)
    if sigbase != "concurrent" and (len(stream) + len(lmsgs)) % 4 == 0:
        second_decode(acc, stream, msgs, wit)


def second_decode(acc, stream, msgs, wit):
    """The same bytes decoded a second time give new objects: nothing of the first result (which the application may have
    changed meanwhile) is shared with or shows in the second."""
    from bromelia.base import DiameterMessage
    first_ids = set()
    for m in msgs:
        first_ids.add(id(m))
        first_ids.add(id(m.header))
        for a in m.avps:
            first_ids.add(id(a))
    before = [m.dump() for m in msgs]
    # the application scribbles on the first result
    for m in msgs:
        try:
            if m.avps:
                m.avps[0].data = b"scribbled"
            m.header.hop_by_hop = 0x5ca1ab1e
        except BaseException:
            pass
    acc.counters["second_decodes"] += 1
    try:
        again = DiameterMessage.load(stream)
    except BaseException as ex:
        acc.violation("second-decode-raises", "the same stream decoded again raised %r" % (ex,), wit)
        return
    shared = [type(o).__name__ for m in again for o in [m, m.header] + list(m.avps) if id(o) in first_ids]
    if shared:
        acc.violation("decoded-objects-shared-between-two-decodes", "objects of the first result come back in the second: %s" % shared[:5], wit)
        return
    if [m.dump() for m in again] != before:
        acc.violation("second-decode-differs", "the same stream decoded again re-serialises differently (after the first result was changed by the application)", wit)


def normalise(lavp, rd):
    """What the wire content becomes if every AVP the library materialises as a dictionary class (top level and,
    recursively, inside dictionary Grouped AVPs) carries its class's default flags instead of the wire flags."""
    row = rd["by_pair"].get((lavp.vendor, lavp.code))
    if row is None:
        return lavp
    value = lavp.value
    if row["type"] == "Grouped" and isinstance(value, list):
        value = [normalise(m, rd) for m in value]
    return R.LAvp(lavp.code, row["flags"], lavp.vendor, value)


def make_rd(g):
    rd = dict(g.rd)
    bp = {}
    for cname, row in g.rd["avps"].items():
        r2 = dict(row)
        r2["class"] = cname
        bp[(row["vendor"], row["code"])] = r2
    rd["by_pair"] = bp
    return rd


def header_of(g):
    f = g.header_fields()
    return R.LMsg(f["version"], f["flags"], f["code"], f["app_id"], f["hbh"], f["e2e"], [])


def concurrent_decode(acc, g, rd, b):
    """Several threads decode at the same time (the receive workers of several connections in one process do): each task
    decodes its own reference-encoded streams under the deterministic scheduler, with line-level preemption inside the class
    registry (DiameterAvpLoader) and DiameterAVP.load; every task's result is judged by the single-threaded oracle."""
    import threading as _th
    import bromelia.base as B
    from bvm import vsched
    r = g.rng
    for it in range(b["n"]):
        seed = b["seed"] * 100003 + it
        k = r.choice([2, 2, 3, 4])
        streams = []
        for t in range(k):
            lmsgs = []
            for _ in range(r.choice([1, 2, 3])):
                lm = header_of(g)
                for _ in range(r.choice([1, 2, 4])):
                    lm.avps.append(g.avp(r.choice(g.classes), maxdepth=3, with_generic=True).lavp if r.random() < 0.8 else g.generic().lavp)
                lmsgs.append(lm)
            streams.append(lmsgs)
        sched = vsched.Sched(seed=seed, strategy="rw", p=r.choice([0.1, 0.3, 0.6]), max_steps=600_000, wall_s=60)
        real_lock_type = type(_th.Lock())
        for holder in (B.DiameterAvpLoader, B.DiameterAVP, B, getattr(B, "loader", None)):
            if holder is None:
                continue
            for name, val in list(vars(holder).items()):
                if isinstance(val, (real_lock_type, vsched.VLock)):
                    setattr(holder, name, vsched.VLock(sched, name))
        codes = [f.__code__ for f in vars(B.DiameterAvpLoader).values() if hasattr(f, "__code__")]
        ld = vars(B.DiameterAVP)["load"]
        codes.append(getattr(ld, "__func__", ld).__code__)
        lp = vsched.LinePreemption(sched, code_objects=codes).__enter__()
        nv = len(acc.violations)
        try:
            def decoder(t):
                for _ in range(3):
                    check_stream(acc, g, rd, streams[t], "concurrent")
            tasks = [sched.spawn("decoder%d" % t, decoder, t) for t in range(k)]
            ok = sched.run_until(lambda: all(t.done for t in tasks), 20.0, "decoders")
            acc.counters["concurrent_decode_executions"] += 1
            acc.counters["preemptions_in_the_registry"] += sched.line_events
            if sched.deaths:
                acc.violation("concurrent:decoder-died:%s" % sched.deaths[0]["type"], sched.deaths[0]["traceback"][-300:], {"seed": seed, "tasks": k})
            elif not ok:
                acc.violation("concurrent:decoders-never-finish", "%s" % sched.blocked_report(), {"seed": seed, "tasks": k})
            for v in acc.violations[nv:]:
                if not v["key"].startswith("concurrent:") and v["key"] != "known-avp-flags-from-class-default":
                    v["key"] = "concurrent:" + v["key"]
                    v["witness"]["concurrent"] = {"seed": seed, "tasks": k, "choices": sched.choices[:1500]}
        except vsched.ControlException as ex:
            acc.inconclusive.append("%s in concurrent decode (seed %d)" % (ex, seed))
        finally:
            lp.__exit__()
            cov = sched.coverage()
            sched.shutdown()
        acc.evaluations += 1
        acc.sigs.add(harness.sig_hash("concurrent/%d/%s" % (k, cov["schedule"])))


def run_batch(b):
    from bromelia.base import DiameterAVP
    acc = harness.Acc()
    g = Gen(b["seed"])
    rd = make_rd(g)
    r = g.rng
    if b["kind"] == "concurrent":
        concurrent_decode(acc, g, rd, b)
        return acc
    if b["kind"] == "streams":
        for it in range(b["n"]):
            k = r.choice([1, 1, 1, 2, 3, 8, r.randrange(1, 9)])
            lmsgs = []
            sigs = []
            for _ in range(k):
                lm = header_of(g)
                for _ in range(r.choice([0, 1, 1, 2, 3, 5, 9])):
                    c = r.random()
                    if c < 0.65:
                        l = reflag(g, g.avp(r.choice(g.classes), maxdepth=5, with_generic=True).lavp)
                        sigs.append("%s/%s/r%d/d%d" % (rd["by_pair"][(l.vendor, l.code)]["class"], flag_class(l.flags),
                                                       len(R.avp_data(l)) % 4, lavp_depth(l)))
                    elif c < 0.85:
                        l = g.generic().lavp
                        sigs.append("unknown/%s/r%d" % (flag_class(l.flags), len(l.value) % 4))
                    elif c < 0.93:
                        # known code under an unknown vendor, or a vendor AVP's code without vendor
                        base = g.avp(r.choice(g.classes), maxdepth=2).lavp
                        data = R.avp_data(base)
                        if base.vendor is None:
                            l = R.LAvp(base.code, r.randrange(256) | 0x80, r.choice([99999, 13019, 10415, 1]), data)
                        else:
                            l = R.LAvp(base.code, r.randrange(128), None, data)
                        if (l.vendor, l.code) in rd["by_pair"]:
                            continue
                        sigs.append("crossvendor/%s" % flag_class(l.flags))
                    else:
                        l = R.LAvp(r.randrange(70000, 2 ** 32), r.randrange(128), None, b"")
                        sigs.append("empty/%s" % flag_class(l.flags))
                    lm.avps.append(l)
                lmsgs.append(lm)
            for s in sigs:
                acc.sigs.add(harness.sig_hash("k%d/" % min(k, 3) + s))
            acc.evaluations += 1
            check_stream(acc, g, rd, lmsgs, "")
            if it == 0:
                acc.sample({"stream": R.encode_stream(lmsgs).hex()[:200], "messages": len(lmsgs)})
    elif b["kind"] == "avpload":
        for it in range(b["n"]):
            ls = [reflag(g, g.any_avp(maxdepth=4).lavp) for _ in range(r.randrange(1, 5))]
            buf = b"".join(R.encode_avp(l) for l in ls)
            wit = {"avps": [l.to_json() for l in ls], "stream": buf.hex()}
            acc.evaluations += 1
            acc.counters["avp_load_calls"] += 1
            try:
                objs = DiameterAVP.load(buf)
            except BaseException as ex:
                acc.violation("well-formed-stream-rejected", "DiameterAVP.load raised %r" % (ex,), wit)
                continue
            if len(objs) != len(ls):
                acc.violation("avp-count-differs", "DiameterAVP.load: %d objects for %d AVPs" % (len(objs), len(ls)), wit)
                continue
            for i, (o, l) in enumerate(zip(objs, ls)):
                if compare(acc, o, l, rd, "avp%d" % i, wit) and o.dump() != R.encode_avp(l):
                    acc.violation("redump-differs", "AVP %d re-dump differs" % i, wit)
                acc.sigs.add(harness.sig_hash("avpload/%r/%d/%s" % (l.vendor, l.code, flag_class(l.flags))))
    elif b["kind"] == "late-classes":
        # the documented extension path: an application defines its own DiameterAVP subclasses (docs/avps.md) - possibly after
        # the library has already decoded traffic.  A pair becomes "known" when its class is defined; before that it is unknown.
        from bromelia.base import DiameterMessage
        from bromelia.types import OctetStringType, Unsigned32Type
        from bromelia.utils import convert_to_4_bytes
        fresh_vendor = 37000 + r.randrange(500)
        plan = [(None, 59001 + r.randrange(100)), (10415, 59200 + r.randrange(100)), (13019, 59400 + r.randrange(100)), (fresh_vendor, r.randrange(1, 5000))]
        lavps = [R.LAvp(code, 0x40 | (0x80 if v is not None else 0), v, bytes([65 + i]) * (3 + i)) for i, (v, code) in enumerate(plan)]
        lm = header_of(g)
        lm.avps = [g.avp(g.by_name["OriginHostAVP"]).lavp] + lavps
        wire = R.encode(lm)
        before = DiameterMessage.load(wire)[0]
        for a in before.avps[1:]:
            if type(a) is not DiameterAVP:
                acc.violation("undefined-pair-not-generic", "(%r, %d) decoded as %s before any class was defined" % (a.get_vendor_id() if a.vendor_id else None, a.get_code(), type(a).__name__), {"wire": wire.hex()})
        made = []
        for i, (v, code) in enumerate(plan):
            def mk(v=v, code=code, i=i):
                class LateAVP(DiameterAVP, OctetStringType):
                    pass
                LateAVP.__name__ = LateAVP.__qualname__ = "Late%dAVP" % i
                LateAVP.code = convert_to_4_bytes(code)
                LateAVP.vendor_id = convert_to_4_bytes(v) if v is not None else None

                def __init__(self, data, cls=LateAVP):
                    if cls.vendor_id is not None:
                        DiameterAVP.__init__(self, cls.code, cls.vendor_id)
                        DiameterAVP.set_vendor_id_bit(self, True)
                        DiameterAVP.set_mandatory_bit(self, True)
                        OctetStringType.__init__(self, data=data, vendor_id=cls.vendor_id)
                    else:
                        DiameterAVP.__init__(self, cls.code)
                        DiameterAVP.set_mandatory_bit(self, True)
                        OctetStringType.__init__(self, data=data)
                LateAVP.__init__ = __init__
                return LateAVP
            made.append(mk())
            after = DiameterMessage.load(wire)[0]
            acc.counters["load_calls"] += 1
            acc.counters["late_class_decodes"] += 1
            acc.evaluations += 1
            for j, a in enumerate(after.avps[1:]):
                want = made[j] if j < len(made) else DiameterAVP
                if type(a) is not want:
                    acc.violation("late-defined-class-not-materialised" if j < len(made) else "undefined-pair-not-generic",
                                  "after defining %s: (%r, %d) decoded as %s, expected %s" % ([c.__name__ for c in made], plan[j][0], plan[j][1], type(a).__name__, want.__name__),
                                  {"wire": wire.hex(), "defined": [(c.__name__, c.vendor_id.hex() if c.vendor_id else None, c.code.hex()) for c in made]})
            if after.dump() != wire:
                acc.violation("redump-differs", "message with late-defined classes re-serialises differently", {"wire": wire.hex(), "again": after.dump().hex()})
            acc.counters["redump_checks"] += 1
        acc.sigs.add("late-classes")
    elif b["kind"] == "vendor0":
        # deterministic: V flag with Vendor-ID 0 on codes of the base dictionary, single-AVP messages
        for cname in b["classes"]:
            base = g.avp(g.by_name[cname], maxdepth=2).lavp
            if base.vendor is not None:
                continue
            lm = header_of(g)
            lm.avps = [R.LAvp(base.code, base.flags | 0x80, 0, R.avp_data(base))]
            acc.evaluations += 1
            acc.sigs.add("v0/" + cname[:12])
            check_stream(acc, g, rd, [lm], "")
    elif b["kind"] == "flaggrid":
        # exhaustive: every flag byte x every class in b["classes"], one single-AVP message each
        for cname in b["classes"]:
            cls = g.by_name[cname]
            base = g.avp(cls, maxdepth=4).lavp
            for fl in range(256):
                l = R.LAvp.from_json(base.to_json())
                l.flags = (fl & 0x7f) | (base.flags & 0x80)
                if fl & 0x80 != base.flags & 0x80:
                    continue   # V must agree with vendor presence; the other 128 bytes are the consistent ones
                lm = header_of(g)
                lm.avps = [l]
                acc.evaluations += 1
                acc.sigs.add("%s/%02x" % (cname[:10], l.flags))
                check_stream(acc, g, rd, [lm], "")
        acc.extra["flag_grid_classes"] = len(b["classes"])
    return acc


def main(tier, seed):
    t0 = time.time()
    q = tier == "quick"
    names = sorted({c.__name__ for c in discover.avp_classes()})
    batches = []
    for i in range(12 if q else 96):
        batches.append({"kind": "streams", "n": 900 if q else 10000, "seed": seed * 7919 + i})
    for i in range(2 if q else 8):
        batches.append({"kind": "avpload", "n": 1500 if q else 10000, "seed": seed * 7919 + 100 + i})
    batches.append({"kind": "vendor0", "classes": names[::5], "seed": seed})
    for i in range(2 if q else 16):
        batches.append({"kind": "late-classes", "seed": seed * 7919 + 300 + i})
    grid = names[seed % 7::7] if q else names
    for i in range(0, len(grid), 8):
        batches.append({"kind": "flaggrid", "classes": grid[i:i + 8], "seed": seed * 7919 + 200 + i})
    for i in range(6 if q else 64):
        batches.append({"kind": "concurrent", "n": 25 if q else 300, "seed": seed * 7919 + 400 + i})
    acc = harness.run_workers("checks.c02_decoding", "run_batch", batches, 1500)
    if not q:
        # the repository's own tests as a workload: every stream they load must re-serialise byte-identically
        harness.run_suite_with_monitors(acc, ("load-redump", "avp-load", "known-avp-flags-from-class-default"))
    return harness.finish(PROP, tier, seed, "exploration", acc, RULE,
                          ["streams come from the independent reference encoder; padding is zero as RFC 6733 requires",
                           "an AVP with the V flag and Vendor-ID 0 is generated and its fields judged, but not its class",
                           "Grouped AVPs always carry their mandatory members (a conformant peer sends them)",
                           "concurrent stage: 2..4 tasks decode at once under the deterministic scheduler with line-level preemption inside the class registry and DiameterAVP.load"],
                          t0, extra_cov={"flag_grid": "all consistent flag bytes x %d classes%s" % (
                              len(grid), "" if q else " (exhaustive over the dictionary)")},
                          require_counters=("load_calls", "second_decodes", "redump_checks", "avp_load_calls", "late_class_decodes", "concurrent_decode_executions", "preemptions_in_the_registry"))


def replay(w):
    from bromelia.base import DiameterMessage
    wit = w["witness"]
    stream = bytes.fromhex(wit["stream"])
    acc = harness.Acc()
    g = Gen(0)
    if "messages" in wit:
        check_stream(acc, g, make_rd(g), [R.LMsg.from_json(m) for m in wit["messages"]], "")
    for v in acc.violations:
        print("VIOLATION property=C02 replay=<this>", v["key"], v["what"])
    return 1 if acc.violations else 0
