"""C15, concurrent part: requests created from several tasks under the deterministic scheduler, with line-level
preemption inside the two identifier functions of bromelia/base.py and a repeating random source."""
import random

from bvm import harness, vsched


def plan(tier, seed):
    q = tier == "quick"
    out = []
    n = 16 if q else 64
    per = 40 if q else 700
    for i in range(n):
        out.append({"kind": "conc", "seed": seed * 3571 + i, "n": per})
    return out


def run(acc, b):
    import bromelia.base as B
    from bromelia.base import DiameterRequest
    from checks.c15_request_ids import Source, install
    rng = random.Random(b["seed"])
    fns = (DiameterRequest._DiameterRequest__set_hop_by_hop_identifier, DiameterRequest._DiameterRequest__set_end_to_end_identifier)
    for it in range(b["n"]):
        seed = b["seed"] * 100003 + it
        k = rng.choice([2, 3, 4, 6])
        per = rng.choice([2, 3, 5])
        rep = rng.choice([2, 3, 4, 8])
        p = rng.choice([0.1, 0.3, 0.6])
        sched = vsched.Sched(seed=seed, strategy="rw", p=p, max_steps=200_000, wall_s=30)
        src = Source("repeat%d" % rep, random.Random(seed))
        install(src)
        made = []
        # any real lock the identifier code uses must become a cooperative one, or a preempted holder would block a real thread
        import threading as _th
        real_lock_type = type(_th.Lock())
        for holder in (DiameterRequest, B):
            for name, val in list(vars(holder).items()):
                if isinstance(val, (real_lock_type, vsched.VLock)):
                    setattr(holder, name, vsched.VLock(sched, name))
                    acc.counters["locks_substituted"] += 1
        # line-level preemption inside the identifier functions and inside the constructors around them (the window between
        # drawing the identifiers and the request actually existing belongs to the property as well)
        codes = [f.__code__ for f in fns] + [DiameterRequest.__init__.__code__, B.DiameterHeader.__init__.__code__]
        lp = vsched.LinePreemption(sched, code_objects=codes).__enter__()
        try:
            failing = rng.random() < 0.5

            def creator(tid):
                for j in range(per):
                    if failing and (tid + j) % 3 == 0:
                        # a creation that is refused after its identifiers were drawn (invalid header field): whatever the
                        # library does with those two identifiers, the other tasks' requests must stay unique
                        try:
                            DiameterRequest(**rng.choice([{"version": 300}, {"command_code": 2 ** 24}, {"application_id": 2 ** 32}, {"version": "x"}]))
                            acc.observe("invalid-header-field-accepted-by-DiameterRequest")
                        except vsched.ControlException:
                            raise
                        except BaseException:
                            acc.counters["refused_creations"] += 1
                        continue
                    m = DiameterRequest(command_code=1 + j, application_id=0)
                    made.append((tid, j, m.header.hop_by_hop, m.header.end_to_end))
            tasks = [sched.spawn("creator%d" % t, creator, t) for t in range(k)]
            ok = sched.run_until(lambda: all(t.done for t in tasks), 10.0, "creators")
            acc.counters["concurrent_executions"] += 1
            acc.counters["requests_judged"] += len(made)
            acc.counters["creations"] += len(made)
            wit = {"seed": seed, "tasks": k, "per_task": per, "repeat": rep, "p": p, "choices": sched.choices[:2000],
                   "ids": [(t, j, h.hex(), e.hex()) for t, j, h, e in made]}
            if sched.deaths:
                acc.violation("creator-died:%s" % sched.deaths[0]["type"], sched.deaths[0]["traceback"][-300:], wit)
            elif not ok:
                acc.violation("creators-never-finish", "%s" % sched.blocked_report(), wit)
            else:
                hs = [m[2] for m in made]
                es = [m[3] for m in made]
                if len(set(hs)) != len(hs):
                    acc.violation("hop-by-hop-reused-concurrently", "%d requests from %d tasks got %d distinct Hop-by-Hop ids (every random value repeated %d times)" % (
                        len(hs), k, len(set(hs)), rep), wit)
                elif len(set(es)) != len(es):
                    acc.violation("end-to-end-reused-concurrently", "%d requests from %d tasks got %d distinct End-to-End ids" % (len(es), k, len(set(es))), wit)
            acc.counters["preemptions_in_id_functions"] += sched.line_events
        except vsched.ControlException as ex:
            acc.inconclusive.append("%s in concurrent creation (seed %d)" % (ex, seed))
        finally:
            lp.__exit__()
            cov = sched.coverage()
            sched.shutdown()
        acc.evaluations += 1
        acc.sigs.add(harness.sig_hash("conc/%d/%d/%d/%s" % (k, per, rep, cov["schedule"])))
    acc.sample({"concurrent": {"tasks": k, "per_task": per, "repeat": rep}})
