"""C09 - typed command classes build exactly the command they name."""
import itertools
import time

from bvm import harness, discover, refcodec as R, refdict as RD, msggen
from bvm.gen import Gen

PROP = "C09"
RULE = ("the typed DiameterRequest/DiameterAnswer subclasses under bromelia.lib x subsets of their optional arguments "
        "(all subsets when <= 2^6, otherwise none/all/each singleton/random) x generated in-domain values per AVP class "
        "x extra keyword AVPs; oracle: vendored command table (code, application, R), declaration-order rule, "
        "argument->AVP class rule, reference encoder/decoder round trip; omission of default-less mandatory arguments "
        "must raise a library error; distinct = (class, set of supplied arguments, extras)")


from bvm.msggen import _tab

def lib_error(ex):
    return type(ex).__module__ == "bromelia.exceptions"


def check_plan(acc, g, plan):
    lib, cls = plan.lib, plan.cls
    cname = "%s.%s" % (lib, cls.__name__)
    wit = {"plan": plan.describe()}
    try:
        msg = plan.build()
    except BaseException as ex:
        if not lib_error(ex):
            # not a refusal by the library but an accident inside the constructor: this valid assignment builds no message at all
            acc.violation("valid-arguments-raise-%s:%s" % (type(ex).__name__, cname), "%s(%s) raised %r" % (cname, ", ".join(sorted(plan.kwargs)), ex), wit)
            return False
        acc.observe("valid-arguments-rejected:%s:%s" % (cname, type(ex).__name__))
        acc.extra.setdefault("rejected_samples", [])
        if len(acc.extra["rejected_samples"]) < 5:
            acc.extra["rejected_samples"].append({"class": cname, "error": repr(ex)[:200], "args": sorted(plan.kwargs)})
        return False
    acc.counters["built"] += 1
    code, app, is_req = msggen.expected_header(lib, cls, plan.kwargs)
    try:
        wire = msg.dump()
    except BaseException as ex:
        acc.violation("dump-raises:%s" % cname, "dump() raised %r" % (ex,), wit)
        return True
    if len(wire) < 20 or int.from_bytes(wire[1:4], "big") != len(wire):
        key = "answer-without-application-id:%s" % cname if msg.header.application_id is None else "message-length-field:%s" % cname
        acc.violation(key, "%s: Message Length %d but %d bytes serialised (header application_id=%r)" % (
            cname, int.from_bytes(wire[1:4], "big"), len(wire), msg.header.application_id), wit)
        return True
    try:
        lm = R.decode(wire)[0]
    except R.Malformed as ex:
        acc.violation("not-well-formed:%s" % cname, "reference decoder rejects dump(): %s" % ex, wit)
        return True
    if lm.code != code:
        acc.violation("command-code:%s" % cname, "command code %d, command table %d" % (lm.code, code), wit)
    if app is not None and lm.app_id != app:
        acc.violation("application-id:%s" % cname, "Application-ID %d, command table %d" % (lm.app_id, app), wit)
    if bool(lm.flags & 0x80) != is_req:
        acc.violation("r-flag:%s" % cname, "R flag %r for a %s" % (bool(lm.flags & 0x80), "request" if is_req else "answer"), wit)
    if bool(lm.flags & 0x40) != (lm.app_id != 0):
        acc.violation("p-flag:%s" % cname, "P flag %r with Application-ID %d" % (bool(lm.flags & 0x40), lm.app_id), wit)
    if lm.flags & 0x3f or lm.version != 1:
        acc.violation("header-bits:%s" % cname, "flags %#x version %d" % (lm.flags, lm.version), wit)
    # AVP sequence: declaration order of the supplied arguments, extras last
    avps = msg.avps
    exp = plan.expected
    rd = g.rd["avps"]
    if len(avps) != len(exp):
        acc.violation("avp-count:%s" % cname, "%d AVPs for %d supplied/defaulted arguments %s" % (
            len(avps), len(exp), [e["arg"] for e in exp]), wit)
    else:
        for i, (a, e, l) in enumerate(zip(avps, exp, lm.avps)):
            if e["cls"] is not None:
                row = rd[e["cls"]]
                if type(a).__name__ != e["cls"] or (l.code, l.vendor) != (row["code"], row["vendor"]):
                    acc.violation("argument-avp-class:%s" % cname, "argument %s at position %d is carried by %s (%r,%d); expected %s" % (
                        e["arg"], i, type(a).__name__, l.vendor, l.code, e["cls"]), wit)
                    continue
            if e["lavp"] is not None:
                want = R.encode_avp(e["lavp"])
                got = R.encode_avp(l)
                if got != want:
                    # order or value?
                    key = "argument-value:%s" % cname
                    if (l.code, l.vendor) != (e["lavp"].code, e["lavp"].vendor):
                        key = "avp-order:%s" % cname
                    acc.violation(key, "position %d (argument %s): wire %s, expected %s" % (i, e["arg"], got.hex()[:80], want.hex()[:80]), wit)
    # mandatory AVPs exactly once
    codes = [(l.vendor, l.code) for l in lm.avps]
    for name, mcls in _tab(cls, "mandatory").items():
        row = rd[mcls.__name__]
        n = codes.count((row["vendor"], row["code"]))
        extra_same = sum(1 for e in exp if e["source"] in ("extra-kwarg", "supplied-untabled") and e["lavp"] is not None
                         and (e["lavp"].vendor, e["lavp"].code) == (row["vendor"], row["code"]))
        if n - extra_same != 1:
            params = [p.name for p in msggen.params_of(cls)]
            key = "mandatory-table-entry-not-an-argument:%s.%s" % (cname, name) if name not in params else "mandatory-count:%s" % cname
            acc.violation(key, "mandatory AVP %s (%s) present %d times" % (name, mcls.__name__, n - extra_same), wit)
    # round trip through the library's own decoder
    try:
        from bromelia.base import DiameterMessage
        back = DiameterMessage.load(wire)
        if len(back) != 1 or back[0].dump() != wire:
            acc.violation("round-trip:%s" % cname, "load(dump()) re-serialises differently", wit)
    except BaseException as ex:
        acc.violation("round-trip:%s" % cname, "load(dump()) raised %r" % (ex,), wit)
    acc.counters["judged"] += 1
    return True


def check_omission(acc, g, lib, cls):
    cname = "%s.%s" % (lib, cls.__name__)
    for arg in msggen.required_args(cls):
        for how in ("absent", "none"):
            plan = msggen.make_plan(g, lib, cls, subset="none", omit=arg)
            if how == "none":
                plan.kwargs[arg] = None
            acc.evaluations += 1
            acc.sigs.add(harness.sig_hash("omit/%s/%s/%s" % (cname, arg, how)))
            try:
                plan.build()
            except BaseException as ex:
                acc.counters["omission_rejected"] += 1
                if not lib_error(ex):
                    acc.violation("mandatory-omission-wrong-error:%s" % cname, "omitting %s raised %r, not a library error" % (arg, ex),
                                  {"plan": plan.describe(), "omitted": arg})
                continue
            acc.violation("mandatory-omission-accepted:%s.%s" % (cname, arg), "%s built without mandatory argument %s" % (cname, arg),
                          {"plan": plan.describe(), "omitted": arg})


def static_checks(acc):
    """Pairs agree on code/application; every class is in the command table; table entries are arguments."""
    table = RD.command_table()
    classes = discover.message_classes()
    seen = set()
    for lib, cls in classes:
        key = (lib, cls.__name__)
        seen.add(key)
        acc.evaluations += 1
        if key not in table:
            acc.observe("class-not-in-command-table:%s.%s" % key)
            continue
        params = [p.name for p in msggen.params_of(cls)]
        # argument -> AVP class rule, independent of the library's own tables: the argument is the snake_case form of the
        # dictionary class name (error_reporting_host <-> ErrorReportingHostAVP); checked against the vendored dictionary
        import re as _re
        from bvm import refdict as _RD
        by_snake = {"_".join(_re.findall("[A-Z0-9][^A-Z]*", n[:-3])).lower(): n for n in _RD.load()["avps"]}
        for which in ("mandatory", "optionals"):
            tab = getattr(cls, which, None)
            if not isinstance(tab, dict):
                # the constructors read both tables: what a class without one does is judged where messages are built
                acc.observe("class-without-%s-table:%s.%s" % (which, lib, cls.__name__))
                continue
            for arg, tcls in tab.items():
                key_ = arg.lstrip("_")
                conv = by_snake.get(key_)
                if conv is None and key_.endswith("_avp"):
                    conv = by_snake.get(key_[:-4])
                acc.counters["table_entries_checked"] += 1
                if conv is None:
                    acc.observe("argument-without-dictionary-class-by-name:%s" % arg)
                elif conv != tcls.__name__:
                    acc.violation("argument-mapped-to-wrong-avp-class:%s.%s.%s" % (lib, cls.__name__, arg),
                                  "%s.%s maps argument %r to %s; the dictionary class of that name is %s" % (lib, cls.__name__, arg, tcls.__name__, conv),
                                  {"class": "%s.%s" % key, "argument": arg, "table": tcls.__name__, "by_name": conv})
        # the classes' own tables and signatures against the vendored copy (frozen from the reviewed tree): an edited table
        # would otherwise move the oracle together with the code
        frozen = _RD.load().get("command_tables", {}).get("%s.%s" % key)
        if frozen is None:
            acc.observe("class-without-frozen-tables:%s.%s" % key)
        else:
            now = {"params": params, "required": sorted(msggen.required_args(cls)),
                   "mandatory": {k: v.__name__ for k, v in _tab(cls, "mandatory").items()},
                   "optionals": {k: v.__name__ for k, v in _tab(cls, "optionals").items()}}
            # Extensions (a new optional argument, a new table entry) are legitimate and only observed; what must not
            # happen is that something the reference has disappears, changes class, changes order or stops being required.
            def subsequence(small, big):
                it = iter(big)
                return all(x in it for x in small)
            problems = []
            if not subsequence(frozen["params"], now["params"]):
                problems.append(("params", "declared arguments %s are no longer all present in that order" % [x for x in frozen["params"] if x not in now["params"]][:5]))
            lost = sorted(set(frozen["required"]) - set(now["required"]))
            if lost:
                problems.append(("required", "arguments %s were mandatory without default and no longer are" % lost))
            for part in ("mandatory", "optionals"):
                for k_, v_ in frozen[part].items():
                    if now["mandatory"].get(k_, now["optionals"].get(k_)) != v_:
                        problems.append((part, "argument %r maps to %r, reference %r" % (k_, now["mandatory"].get(k_, now["optionals"].get(k_)), v_)))
                moved = sorted(k_ for k_ in frozen["mandatory"] if k_ in now["optionals"] and k_ not in now["mandatory"])
                if part == "mandatory" and moved:
                    problems.append((part, "entries %s moved from the mandatory to the optional table" % moved))
            for part, text in problems[:3]:
                acc.violation("command-%s-differ-from-reference:%s.%s" % (part, lib, cls.__name__),
                              "%s.%s: %s" % (lib, cls.__name__, text),
                              {"class": "%s.%s" % key, "part": part, "now": now[part], "reference": frozen[part]})
            if not problems and any(now[p_] != frozen[p_] for p_ in ("params", "required", "mandatory", "optionals")):
                acc.observe("command-tables-extended:%s.%s" % (lib, cls.__name__))
            acc.counters["frozen_tables_compared"] += 1
        for name in list(_tab(cls, "mandatory")) + list(_tab(cls, "optionals")):
            if name not in params:
                kind = "mandatory" if name in _tab(cls, "mandatory") else "optional"
                if kind == "mandatory":
                    acc.violation("mandatory-table-entry-not-an-argument:%s.%s.%s" % (lib, cls.__name__, name),
                                  "%s.%s lists %r as mandatory but its constructor has no such argument: it can be omitted silently" % (lib, cls.__name__, name),
                                  {"class": "%s.%s" % key, "entry": name})
                else:
                    acc.observe("optional-table-entry-not-an-argument:%s.%s.%s" % (lib, cls.__name__, name))
    for key in table:
        if key not in seen:
            acc.violation("command-class-missing:%s.%s" % key, "typed command class %s.%s is gone" % key, {"class": "%s.%s" % key})
    acc.counters["static"] += 1


def shape(msg):
    """AVP codes in order, with the member codes of Grouped AVPs"""
    out = []
    for a in msg.avps:
        members = getattr(a, "avps", None)
        out.append((a.get_code(), tuple(m.get_code() for m in members) if members else None, len(a.dump())))
    return out


def instances_are_independent(acc, plan, cname):
    """Two messages built from the same arguments are two messages: changing the first (list, Grouped members, header) must
    leave the second - built afterwards - as if the first had never existed (no default or table shared between instances)."""
    from bromelia.base import DiameterAVP
    try:
        first = plan.build()
        want = shape(first)
        hdr = (first.header.get_command_code(), first.header.get_application_id(), first.header.get_flags())
        first.append(DiameterAVP(code=99991, data=b"scribble"))
        passed = set()
        for v in plan.kwargs.values():          # objects the caller handed in are the caller's: only what the class built itself is scribbled on
            passed.add(id(v))
            if isinstance(v, (list, tuple)):
                passed.update(id(x) for x in v)
        for a in first.avps:
            if getattr(a, "avps", None) and id(a) not in passed and not any(id(m) in passed for m in a.avps):
                a.append(DiameterAVP(code=99992, data=b"member"))
                break
        first.header.flags = bytes([first.header.get_flags() | 0x10])
        second = plan.build()
    except BaseException as ex:
        acc.observe("instance-independence-not-checked:%s:%s" % (type(ex).__name__, str(ex)[:60]))
        return
    acc.counters["instance_pairs"] += 1
    got = shape(second)
    hdr2 = (second.header.get_command_code(), second.header.get_application_id(), second.header.get_flags())
    if [x[:2] for x in got] != [x[:2] for x in want] or hdr2 != hdr:
        acc.violation("second-instance-inherits-from-first:%s" % cname, "%s built twice from the same arguments: AVPs %s / header %s the first time, %s / %s after the first instance was changed" % (
            cname, [x[:2] for x in want][:12], hdr, [x[:2] for x in got][:12], hdr2), {"plan": plan.describe()})


REAL_APP_IDS = [16777236, 16777238, 16777264, 16777265, 16777251, 16777272, 4, 0]


def order_independence(acc, g, b):
    """What a typed class builds from given arguments may not depend on which other classes were used before in the process.
    The plans (every class, plus the classes that take their Application-ID from an argument once per real application) are
    built in two forked children of a parent that has built nothing yet - one in this order, one in the reverse order - and the
    outcomes (built / refused, header triple, AVP codes in order) are compared plan by plan."""
    import json as _json
    import os as _os
    classes = sorted(((l, c) for l, c in discover.message_classes()), key=lambda x: (x[0], x[1].__name__))
    plans = []
    for lib, cls in classes:
        plans.append(msggen.make_plan(g, lib, cls, subset="random"))
        names = [p.name for p in msggen.params_of(cls)]
        if "auth_application_id" in names:
            for app in REAL_APP_IDS:
                pl = msggen.make_plan(g, lib, cls, subset="all" if g.rng.random() < 0.5 else "random")
                pl.kwargs["auth_application_id"] = app if g.rng.random() < 0.5 else app.to_bytes(4, "big")
                plans.append(pl)
    g.rng.shuffle(plans)

    def outcomes(order):
        rfd, wfd = _os.pipe()
        pid = _os.fork()
        if pid == 0:
            out = {}
            try:
                _os.close(rfd)
                for i in order:
                    try:
                        m = plans[i].build()
                        out[i] = ["built", m.header.get_command_code(), m.header.get_application_id(), m.header.get_flags(), [a.get_code() for a in m.avps]]
                    except BaseException as ex:
                        out[i] = ["refused", type(ex).__name__]
                with _os.fdopen(wfd, "w") as f:
                    _json.dump(out, f)
            finally:
                _os._exit(0)
        _os.close(wfd)
        with _os.fdopen(rfd) as f:
            data = f.read()
        _os.waitpid(pid, 0)
        return {int(k): v for k, v in _json.loads(data).items()} if data else None
    fwd = outcomes(list(range(len(plans))))
    rev = outcomes(list(reversed(range(len(plans)))))
    if fwd is None or rev is None:
        acc.inconclusive.append("order-independence child produced nothing")
        return
    for i, pl in enumerate(plans):
        acc.evaluations += 1
        acc.counters["order_independence_plans"] += 1
        if fwd.get(i) != rev.get(i):
            acc.violation("construction-depends-on-what-was-built-before:%s.%s" % (pl.lib, pl.cls.__name__),
                          "%s.%s(%s): %r when built in one order, %r in the reverse order" % (pl.lib, pl.cls.__name__, sorted(pl.kwargs), fwd.get(i), rev.get(i)),
                          {"plan": pl.describe(), "forward": fwd.get(i), "reverse": rev.get(i)})
    acc.sigs.add("order-independence/%d" % b["seed"])


def run_batch(b):
    acc = harness.Acc()
    g = Gen(b["seed"])
    if b["kind"] == "static":
        static_checks(acc)
        return acc
    if b["kind"] == "order":
        order_independence(acc, g, b)
        return acc
    classes = {(l, c.__name__): c for l, c in discover.message_classes()}
    for lib, cname in b["classes"]:
        cls = classes[(lib, cname)]
        opt = [p.name for p in msggen.params_of(cls) if not (p.name in _tab(cls, "mandatory") and p.default is None)]
        subsets = []
        if len(opt) <= 6:
            for k in range(len(opt) + 1):
                subsets += [frozenset(c) for c in itertools.combinations(opt, k)]
        else:
            subsets = [frozenset(), frozenset(opt)] + [frozenset([o]) for o in opt]
        while len(subsets) < b["n"]:
            subsets.append(frozenset(o for o in opt if g.rng.random() < g.rng.choice([0.1, 0.3, 0.6])))
        ok = 0
        for i, ss in enumerate(subsets[:max(b["n"], len(subsets) if b.get("full") else 0)]):
            extras = g.rng.choice([0, 0, 0, 1, 2])
            plan = msggen.make_plan(g, lib, cls, subset=ss, extras=extras)
            acc.evaluations += 1
            acc.sigs.add(harness.sig_hash("%s.%s/%s/x%d" % (lib, cname, ",".join(sorted(plan.kwargs)), extras)))
            if check_plan(acc, g, plan):
                ok += 1
            if i < 12:
                instances_are_independent(acc, plan, "%s.%s" % (lib, cname))
            if i == 1:
                acc.sample({"class": "%s.%s" % (lib, cname), "supplied": sorted(plan.kwargs)}, limit=3)
        acc.extra.setdefault("per_class_built", {})["%s.%s" % (lib, cname)] = ok
        check_omission(acc, g, lib, cls)
    return acc


def main(tier, seed):
    t0 = time.time()
    q = tier == "quick"
    classes = [(l, c.__name__) for l, c in discover.message_classes()]
    batches = [{"kind": "static", "seed": seed}]
    per = 2 if q else 1
    for i in range(0, len(classes), per):
        for rep in range(1 if q else 4):
            batches.append({"kind": "classes", "classes": classes[i:i + per], "n": 120 if q else 2500, "full": not q,
                            "seed": seed * 104729 + i * 10 + rep})
    for i in range(4 if q else 64):
        batches.append({"kind": "order", "seed": seed * 104729 + 7000 + i})
    acc = harness.run_workers("checks.c09_typed_commands", "run_batch", batches, 1500)
    per_class = acc.extra.get("per_class_built", {})
    zero = ["%s.%s" % c for c in classes if not per_class.get("%s.%s" % c)]
    if zero:
        acc.inconclusive.append("classes never built successfully: %s" % zero[:8])
    return harness.finish(PROP, tier, seed, "exploration", acc, RULE,
                          ["command table (code, application, R) written from the RFCs/3GPP TS, see bvm/refdict.py",
                           "the base ASR/RAR and SWm DER/DEA take the header Application-ID from their auth_application_id argument (library rule)",
                           "values of defaulted arguments are judged by class and position only",
                           "valid argument sets the library rejects with an exception are observed, not judged"],
                          t0, require_counters=("built", "judged", "omission_rejected", "static", "order_independence_plans"))


def replay(w):
    print("witness:", str(w["witness"])[:3000])
    return 1
