"""C19 - a configuration is reflected faithfully or rejected, never silently altered."""
import os
import random
import re
import tempfile
import time

from bvm import harness

PROP = "C19"
RULE = ("complete 12-key dictionaries: per key valid and invalid values, key orders (rotations/reversals exhaustively, "
        "random permutations), 0..2 unknown extra keys, application lists of 0..4 entries; through "
        "_convert_config_to_connection_obj and Diameter(config=...); YAML spec lists of 1..5 entries with and without "
        "transport_type, mixed case; oracle: independent validator (strict dotted quad, type(x) is int); "
        "distinct = (set of invalid fields, key order class, entry point) / (yaml transport pattern)")

KEYS = ["MODE", "TRANSPORT_TYPE", "APPLICATIONS", "LOCAL_NODE_HOSTNAME", "LOCAL_NODE_REALM", "LOCAL_NODE_IP_ADDRESS",
        "LOCAL_NODE_PORT", "PEER_NODE_HOSTNAME", "PEER_NODE_REALM", "PEER_NODE_IP_ADDRESS", "PEER_NODE_PORT", "WATCHDOG_TIMEOUT"]
QUAD = re.compile(r"^(25[0-5]|2[0-4]\d|1\d\d|[1-9]?\d)(\.(25[0-5]|2[0-4]\d|1\d\d|[1-9]?\d)){3}$")

VALID = {
    "MODE": ["CLIENT", "SERVER"],
    "TRANSPORT_TYPE": ["TCP", "SCTP"],
    "LOCAL_NODE_HOSTNAME": ["mme.epc.example.org", "a", "node-1.example.com"],
    "LOCAL_NODE_REALM": ["epc.example.org", "example.com"],
    "LOCAL_NODE_IP_ADDRESS": ["127.0.0.1", "10.0.0.1", "0.0.0.0", "255.255.255.255", "192.168.1.20"],
    "LOCAL_NODE_PORT": [3868, 1, 65535, 3869],
    "PEER_NODE_HOSTNAME": ["hss.epc.example.org", "peer"],
    "PEER_NODE_REALM": ["epc.example.org", "realm.example.net"],
    "PEER_NODE_IP_ADDRESS": ["127.0.0.2", "10.9.8.7", "1.2.3.4"],
    "PEER_NODE_PORT": [3868, 3870, 40000],
    "WATCHDOG_TIMEOUT": [30, 1, 0, 3600, 10 ** 6],
}
INVALID = {   # the reasons the statement lists
    "MODE": ["client", "Server", "PROXY", "", None, 1, "CLIENT "],
    "TRANSPORT_TYPE": ["tcp", "UDP", "sctp", "TLS", 6, " TCP"],
    "LOCAL_NODE_IP_ADDRESS": ["256.1.1.1", "1.2.3", "1.2.3.4.5", "a.b.c.d", "", "1.2.3.4 ", " 1.2.3.4", "1..2.3", "::1",
                              "localhost", "1.2.3.-4", "1.2.3.4\n", "1,2,3,4", "300.300.300.300", "1.2.3.4/24"],
    "PEER_NODE_IP_ADDRESS": ["999.0.0.1", "1.2.3", "hss.example.org", "", "2001:db8::1", "1.2.3.4.", ".1.2.3.4", "12.34.56"],
    "WATCHDOG_TIMEOUT": ["30", 30.0, None, [30], "", 1.5, b"30"],
}
UNJUDGED_IP = [True, 16909060, b"\x01\x02\x03\x04", "01.2.3.4", "1.2.3.04"]


def apps(rng):
    n = rng.choice([0, 1, 1, 2, 3, 4])
    return [{"vendor_id": rng.choice([b"\x00\x00\x28\xaf", b"\x00\x00\x00\x00"]),
             "app_id": rng.choice([b"\x01\x00\x00\x23", b"\x01\x00\x00\x24", b"\x00\x00\x00\x04", b"\x01\x00\x00\x16"])} for _ in range(n)]


def expected_valid(cfg):
    """Independent validator: None if valid, else the first listed reason."""
    for k in cfg:
        if k not in KEYS:
            return "unknown-key"
    if cfg["MODE"] not in ("CLIENT", "SERVER") or type(cfg["MODE"]) is not str:
        return "mode"
    if cfg["TRANSPORT_TYPE"] not in ("TCP", "SCTP") or type(cfg["TRANSPORT_TYPE"]) is not str:
        return "transport"
    for k in ("LOCAL_NODE_IP_ADDRESS", "PEER_NODE_IP_ADDRESS"):
        v = cfg[k]
        if type(v) is str:
            if not QUAD.match(v) or v.endswith("\n"):
                return "ip:" + k
        else:
            return "unjudged"
    if type(cfg["WATCHDOG_TIMEOUT"]) is not int:
        return "unjudged" if type(cfg["WATCHDOG_TIMEOUT"]) is bool else "timeout"
    return None


def reflect_ok(conn, cfg):
    got = (conn.mode, conn.transport_type, conn.application_ids, conn.local_node.host_name, conn.local_node.realm,
           conn.local_node.ip_address, conn.local_node.port, conn.peer_node.host_name, conn.peer_node.realm,
           conn.peer_node.ip_address, conn.peer_node.port, conn.watchdog_timeout)
    want = tuple(cfg[k] for k in KEYS)
    return got == want, got, want


def make_cfg(rng, mode):
    cfg = {k: rng.choice(VALID[k]) for k in KEYS if k != "APPLICATIONS"}
    cfg["APPLICATIONS"] = apps(rng)
    bad = []
    if mode == "invalid":
        for k in rng.sample(list(INVALID), rng.choice([1, 1, 1, 2, 3])):
            cfg[k] = rng.choice(INVALID[k])
            bad.append(k)
    elif mode == "extra":
        for _ in range(rng.choice([1, 2])):
            cfg[rng.choice(["FOO", "mode", "Mode", "LOCAL_NODE_IP", "PEER_NODE_HOST", "WATCHDOG", "TIMEOUT", "APPLICATION", "", "X" * 40])] = rng.choice([1, "x", None])
        bad.append("extra")
    elif mode == "unjudged-ip":
        cfg[rng.choice(["LOCAL_NODE_IP_ADDRESS", "PEER_NODE_IP_ADDRESS"])] = rng.choice(UNJUDGED_IP)
    return cfg, bad


def order(rng, cfg, how):
    keys = list(cfg)
    base = [k for k in KEYS if k in cfg] + [k for k in keys if k not in KEYS]
    if how.startswith("rot"):
        n = int(how[3:])
        ks = base[n:] + base[:n]
    elif how == "rev":
        ks = base[::-1]
    else:
        ks = base[:]
        rng.shuffle(ks)
    return {k: cfg[k] for k in ks}


def judge(acc, cfg, bad, how, entry):
    from bromelia._internal_utils import _convert_config_to_connection_obj
    from bromelia.exceptions import InvalidConfigKey, InvalidConfigValue
    import copy
    verdict = expected_valid(cfg)
    wit = {"config": {k: repr(v) for k, v in cfg.items()}, "entry": entry, "order": how}
    acc.evaluations += 1
    acc.sigs.add(harness.sig_hash("%s/%s/%s/%s" % (sorted(bad), how if how != "perm" else "perm", entry, verdict)))
    snapshot = copy.deepcopy(cfg)
    try:
        if entry == "convert":
            conn = _convert_config_to_connection_obj(cfg)
            view = None
        else:
            from bromelia import Diameter
            d = Diameter(config=cfg)
            conn, view = d._connection, d.config
    except (InvalidConfigKey, InvalidConfigValue) as ex:
        acc.counters["rejected_with_config_error"] += 1
        if verdict is None:
            acc.violation("valid-config-rejected", "valid configuration rejected: %r" % (ex,), wit)
        return
    except BaseException as ex:
        if verdict is None:
            acc.violation("valid-config-raises", "valid configuration raised %r" % (ex,), wit)
        elif verdict == "unjudged":
            acc.observe("unjudged-config-raises:%s" % type(ex).__name__)
        else:
            acc.violation("invalid-config-wrong-error:%s" % verdict.split(":")[0], "rejected with %s (%s), not the library's configuration error" % (
                type(ex).__name__, ex), wit)
        return
    acc.counters["accepted"] += 1
    if verdict == "unjudged":
        acc.observe("unjudged-config-accepted")
        return
    if verdict is not None:
        acc.violation("invalid-config-accepted:%s" % verdict.split(":")[0], "configuration with %s accepted silently" % verdict, wit)
        return
    ok, got, want = reflect_ok(conn, snapshot)
    if not ok:
        diff = [KEYS[i] for i in range(12) if got[i] != want[i]]
        acc.violation("config-not-reflected:%s" % ",".join(diff), "fields %s differ: got %r" % (diff, [got[KEYS.index(k)] for k in diff]), wit)
    if view is not None and any(view[k] != snapshot[k] for k in KEYS):
        acc.violation("diameter-config-view-differs", "Diameter(config).config differs from the configured values", wit)


def yaml_case(acc, rng, tmpdir):
    from bromelia._internal_utils import _convert_file_to_config
    n = rng.randrange(1, 6)
    specs, want = [], []
    consts = {"VENDOR_ID_3GPP": b"\x00\x00\x28\xaf", "DIAMETER_APPLICATION_S6a": b"\x01\x00\x00\x23", "VENDOR_ID_DEFAULT": b"\x00\x00\x00\x00",
              "DIAMETER_APPLICATION_Gx": b"\x01\x00\x00\x16", "APP_X": b"\x00\x00\x00\x04"}
    lines = ["api_version: v1", "name: test-app", "spec:"]
    pattern = []
    for i in range(n):
        mode = rng.choice(["client", "server", "CLIENT", "Server", "cLiEnT"])
        tr = rng.choice([None, None, "tcp", "sctp", "SCTP", "Tcp", "sCtP"])
        pattern.append("-" if tr is None else tr.upper()[0])
        napps = rng.randrange(1, 4)
        apps_ = [(rng.choice(["VENDOR_ID_3GPP", "VENDOR_ID_DEFAULT"]), rng.choice(["DIAMETER_APPLICATION_S6a", "DIAMETER_APPLICATION_Gx", "APP_X"])) for _ in range(napps)]
        lip, pip = "10.0.%d.%d" % (i, rng.randrange(256)), "10.1.%d.%d" % (i, rng.randrange(256))
        lport, pport, wd = rng.choice([3868, 3869 + i]), rng.choice([3868, 4000 + i]), rng.choice([30, 5 + i])
        lines.append("  - mode: %s" % mode)
        if tr is not None:
            lines.append("    transport_type: %s" % tr)
        lines.append("    applications:")
        for v, a in apps_:
            lines.append("      - vendor_id: %s" % v)
            lines.append("        app_id: %s" % a)
        lines += ["    local:", "      hostname: local%d.example.org" % i, "      realm: example.org", "      ip_address: %s" % lip, "      port: %d" % lport,
                  "    peer:", "      hostname: peer%d.example.org" % i, "      realm: peer.example.org", "      ip_address: %s" % pip, "      port: %d" % pport,
                  "    watchdog_timeout: %d" % wd]
        want.append({"MODE": mode.upper(), "TRANSPORT_TYPE": (tr or "tcp").upper(),
                     "APPLICATIONS": [{"vendor_id": consts[v], "app_id": consts[a]} for v, a in apps_],
                     "LOCAL_NODE_HOSTNAME": "local%d.example.org" % i, "LOCAL_NODE_REALM": "example.org", "LOCAL_NODE_IP_ADDRESS": lip,
                     "LOCAL_NODE_PORT": lport, "PEER_NODE_HOSTNAME": "peer%d.example.org" % i, "PEER_NODE_REALM": "peer.example.org",
                     "PEER_NODE_IP_ADDRESS": pip, "PEER_NODE_PORT": pport, "WATCHDOG_TIMEOUT": wd})
    path = os.path.join(tmpdir, "c.yaml")
    with open(path, "w") as f:
        f.write("\n".join(lines) + "\n")
    acc.evaluations += 1
    acc.counters["yaml_files"] += 1
    acc.sigs.add("yaml/" + "".join(pattern))
    wit = {"yaml": "\n".join(lines), "transport_pattern": "".join(pattern)}
    try:
        got = _convert_file_to_config(path, consts)
    except BaseException as ex:
        acc.violation("yaml-valid-spec-raises", "valid YAML spec raised %r" % (ex,), wit)
        return
    if len(got) != len(want):
        acc.violation("yaml-entry-count", "%d descriptions for %d spec entries" % (len(got), len(want)), wit)
        return
    for i, (g, w) in enumerate(zip(got, want)):
        if g != w:
            diff = [k for k in KEYS if g.get(k) != w.get(k)]
            key = "yaml-field-differs:%s" % ",".join(diff)
            if diff == ["TRANSPORT_TYPE"] and pattern[i] == "-" and g["TRANSPORT_TYPE"] != "TCP":
                key = "yaml-transport-default-leaks-from-previous-spec"
            acc.violation(key, "spec entry %d: %s = %r, expected %r (transport pattern %s)" % (
                i, diff, [g.get(k) for k in diff], [w.get(k) for k in diff], "".join(pattern)), wit)
            return


def run_batch(b):
    acc = harness.Acc()
    rng = random.Random(b["seed"])
    if b["kind"] == "dict":
        hows = ["rot%d" % i for i in range(12)] + ["rev"] + ["perm"] * 12
        for i in range(b["n"]):
            mode = rng.choice(["valid", "valid", "invalid", "invalid", "extra", "unjudged-ip"])
            cfg, bad = make_cfg(rng, mode)
            how = hows[i % len(hows)]
            cfg = order(rng, cfg, how)
            judge(acc, cfg, bad, how, "convert" if rng.random() < 0.7 else "diameter")
        acc.sample({"config": {k: repr(v) for k, v in cfg.items()}})
        # metamorphic: whether a configuration is accepted must not depend on the *position* of an entry in APPLICATIONS
        # (the statement says nothing about ill-typed application ids, so the outcome itself is not judged - only that it
        # is the same for every rotation of the list)
        from bromelia._internal_utils import _convert_config_to_connection_obj as conv
        for i in range(max(20, b["n"] // 100)):
            cfg, _ = make_cfg(rng, "valid")
            good = apps(rng) or [{"vendor_id": b"\x00\x00\x28\xaf", "app_id": b"\x01\x00\x00\x23"}]
            odd = rng.choice([{"vendor_id": 10415, "app_id": b"\x01\x00\x00\x23"}, {"vendor_id": b"\x00\x00\x28\xaf", "app_id": "16777251"},
                              {"vendor_id": b"\x00\x00\x28\xaf"}, {"vendor_id": None, "app_id": None}, {"vendor_id": b"\x00\x00\x28\xaf", "app_id": 4, "x": 1}])
            lst = good + [odd]
            outcomes = []
            for r in range(len(lst)):
                rot = lst[r:] + lst[:r]
                c2 = dict(cfg, APPLICATIONS=[dict(e) for e in rot])
                try:
                    conv(c2)
                    outcomes.append("accepted")
                except BaseException as ex:
                    outcomes.append("rejected" if type(ex).__module__.startswith("bromelia") else "raised-" + type(ex).__name__)
            acc.evaluations += 1
            acc.counters["application_list_rotations"] += len(lst)
            if len(set(outcomes)) > 1:
                acc.violation("application-entry-judged-by-position", "the same APPLICATIONS entries in %d rotations gave %s (odd entry %r)" % (len(lst), outcomes, odd),
                              {"applications": repr(lst), "outcomes": outcomes})
    else:
        with tempfile.TemporaryDirectory() as td:
            for i in range(b["n"]):
                yaml_case(acc, rng, td)
        acc.sample({"yaml_cases": b["n"]})
    return acc


def main(tier, seed):
    t0 = time.time()
    q = tier == "quick"
    batches = []
    for i in range(8 if q else 32):
        batches.append({"kind": "dict", "n": 4000 if q else 50000, "seed": seed * 613 + i})
    for i in range(4 if q else 16):
        batches.append({"kind": "yaml", "n": 500 if q else 8000, "seed": seed * 613 + 100 + i})
    acc = harness.run_workers("checks.c19_config", "run_batch", batches, 1500)
    return harness.finish(PROP, tier, seed, "exploration", acc, RULE,
                          ["booleans, integers or packed bytes as addresses, leading-zero octets are generated but not judged",
                           "only complete dictionaries (all 12 keys) are generated; invalid APPLICATIONS shapes are outside the listed reasons",
                           "YAML constants are resolved against a dictionary supplied by the harness"],
                          t0, require_counters=("rejected_with_config_error", "accepted", "yaml_files", "application_list_rotations"))


def replay(w):
    print("witness:", str(w["witness"])[:3000])
    return 1
