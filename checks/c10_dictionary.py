"""C10 - the AVP dictionary is unambiguous and every class enforces its declared type.

Dictionary monitor (class attributes, instances, load dispatch, vendored reference dictionary, docs and
definitions.py cross-read) + type-contract monitor: for ANY constructor value the outcome must be a
well-formed encoding of that value or an exception."""
import datetime
import re
import time

from bvm import harness, discover, refcodec as R
from bvm.gen import Gen

PROP = "C10"
RULE = ("all dictionary classes discovered through DiameterAVP.__subclasses__() x in-domain boundary/random values "
        "and out-of-domain values (wrong Python type, negative and too-wide integers, bytes of every width 0..12, "
        "non-member enumerators, bad address family/width/literals, non aaa(s) URIs, Grouped without mandatory "
        "members); oracle: vendored refdict.json + per-type domain predicates from RFC 6733 4.2/4.3; outcome must "
        "be 'exception' or 'well-formed encoding of that value'; decode dispatch of every class's own (vendor, code) to that class "
        "and of the same code under five foreign vendors (and no vendor) to a generic AVP; distinct = (class, value class)")

WIDTH = {"Unsigned32": 4, "Integer32": 4, "Enumerated": 4, "Time": 4, "Unsigned64": 8, "Integer64": 8}
EQUIV_TYPES = {"IPFilterRule": "OctetString", "Integer64": "Unsigned64"}


def norm_type(t):
    return EQUIV_TYPES.get(t, t)


def out_of_domain_values(kind, row, rng):
    """[(value class, value)] - includes in-domain boundaries so that both outcomes are exercised."""
    vals = [("none", None), ("str-abc", "abc"), ("str-len4", "abcd"), ("str-len8", "abcdefgh"), ("float", 1.5), ("float-zero", 0.0),
            ("list-empty", []), ("list-ints", [1, 2, 3, 4]), ("dict", {}), ("tuple", (1, 2)), ("bytearray4", bytearray(4)),
            ("bytearray8", bytearray(8)),
            ("int-neg1", -1), ("int-minneg32", -2 ** 31), ("int-2^32", 2 ** 32), ("int-2^63", 2 ** 63),
            ("int-2^64-1", 2 ** 64 - 1), ("int-2^64", 2 ** 64), ("int-huge", 10 ** 30), ("int-0", 0), ("int-1", 1),
            ("int-2^32-1", 2 ** 32 - 1), ("int-2^63-1", 2 ** 63 - 1),
            ("datetime-1899", datetime.datetime(1899, 12, 31, 23, 59, 59)), ("datetime-2036", datetime.datetime(2036, 2, 7, 6, 28, 16)),
            ("datetime-2020", datetime.datetime(2020, 5, 17, 1, 2, 3)), ("date", datetime.date(2020, 1, 1)),
            ("str-ip4", "10.1.2.3"), ("str-ip6", "2001:db8::1"), ("str-ip-bad-octet", "999.1.1.1"), ("str-not-ip", "not an ip"),
            ("str-ip4-short", "1.2.3"), ("str-uri-aaa", "aaa://host.example.com:3868;transport=tcp"), ("str-uri-aaas", "aaas://host.example.com"),
            ("str-uri-http", "http://host.example.com"), ("str-uri-noscheme", "host.example.com"), ("str-uri-aaa-slash", "aaa:/host.example.com"),
            ("bytes-uri-http", b"http://host.example.com"), ("bytes-uri-aaa", b"aaa://host.example.com"), ("bytes-bad-utf8-uri", b"aaa://\xff\xfe.example.com"),
            ("bool", True)]
    # a well-formed DiameterURI followed by something no URI may end with (the whole value is judged, not a prefix of it)
    for i, junk in enumerate(("/", "\n", " ", "\t", "/path/", ":3868/", ";transport=tcp\n", ";transport=tcp;protocol=diameter /", "\r\n", "/\x00")):
        base = "aaa://host.example.com" if i % 2 == 0 else "aaas://h1.realm.example.org:3868"
        if junk.startswith(":"):
            base = "aaa://host.example.com"
        vals.append(("str-uri-trailing-junk-%d" % i, base + junk))
        vals.append(("bytes-uri-trailing-junk-%d" % i, (base + junk).encode()))
    for w in range(0, 13):
        vals.append(("bytes-w%d" % w, bytes((i * 37 + 1) & 0xff for i in range(w))))
    vals.append(("bytes-w4-zero", bytes(4)))
    vals.append(("bytes-w4-one", (1).to_bytes(4, "big")))
    vals.append(("bytes-w4-max", b"\xff" * 4))
    vals.append(("bytes-w4-rand", rng.randrange(2 ** 32).to_bytes(4, "big")))
    vals.append(("bytes-addr4", b"\x00\x01\x0a\x00\x00\x01"))
    vals.append(("bytes-addr6", b"\x00\x02" + bytes(range(16))))
    vals.append(("bytes-addr4-short", b"\x00\x01\x0a\x00\x00"))
    vals.append(("bytes-addr4-long", b"\x00\x01\x0a\x00\x00\x01\x02"))
    vals.append(("bytes-addr6-short", b"\x00\x02" + bytes(15)))
    vals.append(("bytes-addr-fam0", b"\x00\x00\x0a\x00\x00\x01"))
    vals.append(("bytes-addr-fam3", b"\x00\x03\x0a\x00\x00\x01"))
    vals.append(("bytes-addr-1byte", b"\x01"))
    for fam in (1, 2):
        for w in range(0, 21):
            if (fam, w) in ((1, 4), (2, 16)):
                continue
            vals.append(("bytes-addr-fam%d-width%d" % (fam, w), fam.to_bytes(2, "big") + bytes((7 * i + 32) & 0xff for i in range(w))))
    if kind == "Enumerated":
        vs = row["values"]
        for v in vs[:3] + vs[-2:]:
            vals.append(("enum-member-bytes", v.to_bytes(4, "big", signed=True)))
            vals.append(("enum-member-int", v))
        nm = [x for x in (max(vs) + 1, min(vs) - 1 if min(vs) > -2 ** 31 else 12345, 2 ** 31 - 1, 999999) if x not in vs]
        for v in nm:
            vals.append(("enum-nonmember-bytes", v.to_bytes(4, "big", signed=True)))
            vals.append(("enum-nonmember-int", v))
    return vals


def canonical(kind, name, row, value):
    """Reference encoding of `value` as `kind`, or None if the value is outside the type's domain."""
    t = type(value)
    if t is bytearray:          # bytes-like: same domain as bytes
        value, t = bytes(value), bytes
    if name in ("SessionIdAVP", "AcctMultiSessionIdAVP"):
        if t is bytes:
            return value
        return "generated" if t is str else None
    if name in ("MsisdnAVP", "StnSrAVP"):
        if t is bytes:
            return value
        if t is int and value >= 0:
            return bytes.fromhex(R.ref_tbcd(str(value)))
        if t is str and value.isdigit() and value[0] != "0":
            return bytes.fromhex(R.ref_tbcd(value))
        return "unjudged" if t is str and value.isdigit() else None
    if name == "FramedIpAddressAVP":
        # RFC 7155: 4-octet OctetString, although the library (and its docs) derive it from Address.  Only the
        # literal form is judged; what it does with raw bytes / integers is observed.
        if t is bytes or t is int or t is bool:
            return "unjudged"
        if t is str:
            try:
                import ipaddress
                return ipaddress.IPv4Address(value).packed
            except ValueError:
                return None
        return None
    if name == "EapPayloadAVP":
        return value if t is bytes else "unjudged"
    if kind in ("OctetString", "UTF8String", "DiameterIdentity"):
        if t is bytes:
            return value
        if t is str:
            return value.encode("utf-8")
        return None
    if kind == "DiameterURI":
        if t is bytes:
            try:
                s = value.decode("utf-8")
            except UnicodeDecodeError:
                return None
        elif t is str:
            s = value
        else:
            return None
        if not re.match(r"aaas?://[^/\s\x00]+\Z", s):
            return None
        return "unjudged-uri:" + s      # acceptance of a particular URI is the library's call; scheme is judged
    if kind in ("Unsigned32", "Unsigned64", "Integer64"):
        w = WIDTH[kind]
        if t is int:
            return value.to_bytes(w, "big") if 0 <= value < 2 ** (8 * w) else None
        if t is bytes:
            return value if len(value) == w else None
        if t is bool:
            return "unjudged"
        return None
    if kind == "Integer32":
        if t is bytes:
            return value if len(value) == 4 else None
        if t is int:
            return "unjudged" if -2 ** 31 <= value < 2 ** 31 else None
        return None
    if kind == "Enumerated":
        if t is bytes and len(value) == 4 and int.from_bytes(value, "big", signed=True) in row["values"]:
            return value
        if t is int and value in row["values"]:
            return "unjudged"
        return None
    if kind == "Time":
        if t is bytes:
            return value if len(value) == 4 else None
        if t is datetime.datetime and value.tzinfo is None:
            lo = R.EPOCH_1900
            if lo <= value < lo + datetime.timedelta(seconds=2 ** 32):
                return R.enc_time(value)
            return None
        return None
    if kind == "Address":
        if t is bytes:
            if len(value) < 2:
                return None
            fam = int.from_bytes(value[:2], "big")
            if fam == 1:
                return value if len(value) == 6 else None
            if fam == 2:
                return value if len(value) == 18 else None
            return "unjudged"        # other IANA address families: width rules unknown to this oracle
        if t is str or t is int:
            try:
                return R.enc_address(value)     # an int is an address literal for `ipaddress`, too
            except ValueError:
                return None
        if t is bool:
            return "unjudged"
        return None
    return "unjudged"


def check_value(acc, cls, row, vclass, value):
    name, kind = cls.__name__, row["type"]
    want = canonical(kind, name, row, value)
    wit = {"class": name, "kind": kind, "value_class": vclass, "value": repr(value)}
    acc.evaluations += 1
    acc.sigs.add(harness.sig_hash("%s/%s" % (name, vclass)))
    try:
        obj = cls(value)
    except BaseException as ex:
        acc.counters["rejected"] += 1
        if isinstance(want, bytes):
            acc.observe("in-domain-rejected:%s:%s:%s" % (kind, vclass, type(ex).__name__))
        return
    acc.counters["accepted"] += 1
    if isinstance(want, str) and want.startswith("unjudged"):
        acc.observe("unjudged-accepted:%s:%s" % (kind, vclass))
        return
    # the object must serialise, and to a structurally well-formed AVP of the class's identity
    try:
        wire = obj.dump()
        l = R.decode_avps(wire)
        assert len(l) == 1
        l = l[0]
    except BaseException as ex:
        acc.violation("%s-accepts-%s" % (kind, vclass), "%s(%r) was accepted but does not serialise to a well-formed AVP: %s: %s" % (
            name, value, type(ex).__name__, ex), wit)
        return
    if want is None:
        acc.violation("%s-accepts-%s" % (kind, vclass), "%s(%r) was accepted (data %s) although the value is outside the type's domain" % (
            name, value, l.value.hex()[:60]), wit)
        return
    if want == "generated":
        return
    if l.value != want:
        acc.violation("%s-misencodes-%s" % (kind, vclass), "%s(%r) encodes data %s, reference %s" % (name, value, l.value.hex()[:60], want.hex()[:60]), wit)
        return
    if (l.code, l.vendor) != (row["code"], row["vendor"]) or bool(l.flags & 0x80) != (row["vendor"] is not None):
        acc.violation("instance-identity", "%s instance carries code %d vendor %r flags %#x" % (name, l.code, l.vendor, l.flags), wit)


def check_grouped(acc, g, cls, row):
    from bromelia.base import DiameterAVP
    name = cls.__name__
    mand = list(row["mandatory"].values())
    for drop in range(len(mand)):
        members = [g.avp(g.by_name[m]) for i, m in enumerate(mand) if i != drop]
        # keep members whose code differs from the dropped one (a class may list one code twice)
        dropped_code = g.rd["avps"][mand[drop]]["code"]
        if any(m.lavp.code == dropped_code for m in members):
            continue
        for form in ("list", "bytes"):
            acc.evaluations += 1
            acc.sigs.add(harness.sig_hash("%s/missing-mandatory/%s" % (name, form)))
            try:
                arg = [m.build() for m in members] if form == "list" else b"".join(R.encode_avp(m.lavp) for m in members)
                cls(arg)
            except BaseException:
                acc.counters["rejected"] += 1
                continue
            acc.counters["accepted"] += 1
            acc.violation("Grouped-accepts-missing-mandatory-%s" % form, "%s built (%s) without mandatory member %s" % (name, form, mand[drop]),
                          {"class": name, "dropped": mand[drop], "form": form})
    for vclass, value in (("none", None), ("str-abc", "abc"), ("int-1", 1), ("list-ints", [1, 2]), ("list-bytes", [b"ab"]),
                          ("bytes-truncated-member", b"\x00\x00\x01\x08\x40\x00\x00"), ("bytes-member-overrun", b"\x00\x00\x01\x08\x40\x00\x00\x20abcd")):
        acc.evaluations += 1
        acc.sigs.add(harness.sig_hash("%s/%s" % (name, vclass)))
        try:
            cls(value)
        except BaseException:
            acc.counters["rejected"] += 1
            continue
        acc.counters["accepted"] += 1
        acc.violation("Grouped-accepts-%s" % vclass, "%s(%r) was accepted" % (name, value), {"class": name, "value": repr(value)})


def dictionary_checks(acc, g):
    """Static part: function-ness, refdict/docs/definitions cross-read, dispatch."""
    from bromelia.base import DiameterAVP
    import bromelia.definitions as defs
    classes = discover.avp_classes()
    rd = g.rd["avps"]
    pairs = {}
    for c in classes:
        key = (discover.vendor_of(c), discover.code_of(c))
        ident = (c.__name__, discover.kind_of(c))
        pairs.setdefault(key, set()).add(ident)
        acc.evaluations += 1
    for key, idents in pairs.items():
        if len(idents) > 1:
            acc.violation("dictionary-pair-shared", "(vendor, code) %r is claimed by different definitions %s" % (key, sorted(idents)),
                          {"pair": list(key), "definitions": sorted(map(list, idents))})
    seen = set()
    for c in classes:
        n = c.__name__
        if n in seen:
            continue
        seen.add(n)
        row = rd.get(n)
        if row is None:
            acc.observe("class-not-in-refdict:" + n)
            continue
        acc.counters["refdict_rows_compared"] += 1
        got = {"code": discover.code_of(c), "vendor": discover.vendor_of(c), "type": discover.kind_of(c)}
        for k in ("code", "vendor", "type"):
            if norm_type(got[k]) != norm_type(row[k]) if k == "type" else got[k] != row[k]:
                acc.violation("class-%s-differs-from-dictionary" % k, "%s: %s = %r, published dictionary says %r" % (n, k, got[k], row[k]),
                              {"class": n, "field": k, "got": got[k], "want": row[k]})
        if row["type"] == "Enumerated":
            vals = sorted(int.from_bytes(v, "big", signed=True) if isinstance(v, bytes) else v for v in c.values)
            if vals != sorted(row["values"]):
                acc.violation("enumerators-differ-from-dictionary", "%s: enumerators %r, dictionary %r" % (n, vals[:12], sorted(row["values"])[:12]),
                              {"class": n, "got": vals, "want": sorted(row["values"])})
        if row["type"] == "Grouped":
            m = {k: v.__name__ for k, v in c.mandatory.items()}
            o = {k: v.__name__ for k, v in c.optionals.items()}
            if sorted(o.values()) != sorted(row["optionals"].values()):
                acc.observe("grouped-optionals-differ-from-dictionary:%s" % n)       # the statement is about mandatory members
            if set(row["mandatory"].values()) - set(m.values()):
                acc.violation("grouped-mandatory-differs-from-dictionary", "%s: mandatory %r, dictionary %r" % (n, sorted(m.values()), sorted(row["mandatory"].values())),
                              {"class": n})
        # instance identity, default flags and decode dispatch
        for i in range(3):
            spec = g.avp(c)
            try:
                obj = spec.build()
            except BaseException:
                continue
            acc.counters["instances_checked"] += 1
            if (obj.get_code(), obj.get_vendor_id() if obj.vendor_id is not None else None) != (row["code"], row["vendor"]) \
                    or obj.is_vendor_id() != (row["vendor"] is not None):
                acc.violation("instance-identity", "%s instance: code %d vendor %r V=%r" % (n, obj.get_code(), obj.get_vendor_id(), obj.is_vendor_id()), {"class": n})
            if obj.get_flags() != row["flags"]:
                acc.violation("default-flags-differ-from-dictionary", "%s instance flags %#04x, dictionary %#04x" % (n, obj.get_flags(), row["flags"]), {"class": n})
            try:
                back = DiameterAVP.load(R.encode_avp(spec.lavp))
            except BaseException as ex:
                acc.violation("load-dispatch-raises", "%s: load of its own encoding raised %r" % (n, ex), {"class": n})
                continue
            if len(back) != 1 or type(back[0]).__name__ != n:
                acc.violation("load-dispatch-wrong-class", "(%r, %d) decoded as %s, dictionary class %s" % (
                    row["vendor"], row["code"], type(back[0]).__name__ if back else None, n), {"class": n})
            if i == 0:
                # the dispatch is a function of the *pair*: the same code under a vendor for which the published dictionary
                # defines nothing at that code must not come back as a dictionary class
                defined = {(r["vendor"], r["code"]) for r in rd.values()}
                for foreign in (None, 9, 323, 10415, 13019, 0x7fffffff):
                    if foreign == row["vendor"] or (foreign, row["code"]) in defined:
                        continue
                    la = R.LAvp(row["code"], (row["flags"] & 0x7f) | (0x80 if foreign is not None else 0), foreign, R.avp_data(spec.lavp))
                    acc.counters["foreign_pair_decodes"] += 1
                    try:
                        fb = DiameterAVP.load(R.encode_avp(la))
                    except BaseException as ex:
                        if type(ex).__module__.startswith("bromelia"):
                            acc.observe("foreign-pair-rejected:%s" % type(ex).__name__)
                        else:
                            acc.violation("load-dispatch-foreign-pair-raises", "(%r, %d) - not in the dictionary - raised %r" % (foreign, row["code"], ex), {"class": n, "vendor": foreign})
                        continue
                    if len(fb) != 1 or type(fb[0]) is not DiameterAVP:
                        acc.violation("load-dispatch-foreign-pair-to-dictionary-class", "(%r, %d) is not in the dictionary but decodes as %s (the class of (%r, %d))" % (
                            foreign, row["code"], type(fb[0]).__name__ if fb else None, row["vendor"], row["code"]), {"class": n, "vendor": foreign})
    for n in rd:
        if n not in seen:
            acc.violation("dictionary-class-missing", "published AVP class %s is gone from the library" % n, {"class": n})
    # docs/list-of-avps.md cross-read
    import os
    docs = os.path.join(harness.REPO, "docs", "list-of-avps.md")
    ndocs = 0
    for line in open(docs):
        m = re.match(r"\|(\d+)\|`([^`]+)`\|(\d+)\|(\w+)\|([^|]*)\|([^|]*)\|[^|]*\|(\w+)", line)
        if not m:
            continue
        ndocs += 1
        cname, dcode, dtype = m.group(7), int(m.group(3)), m.group(4)
        row = rd.get(cname)
        if row is None:
            acc.observe("docs-row-without-refdict-row:" + cname)
            continue
        if dcode != row["code"]:
            acc.violation("docs-code-differs", "docs/list-of-avps.md lists %s (%s) with code %d; the dictionary and the standard say %d" % (
                m.group(2), cname, dcode, row["code"]), {"class": cname, "docs": dcode, "want": row["code"]})
        if norm_type(dtype) != norm_type(row["type"]):
            acc.violation("docs-type-differs", "docs/list-of-avps.md lists %s as %s; dictionary says %s" % (cname, dtype, row["type"]), {"class": cname})
    acc.counters["docs_rows_compared"] = ndocs
    # definitions.py: a name table keyed by code for non-vendor AVPs
    dn = {}
    for d in defs.diameter_avps:
        dn.setdefault(d["id"], d["name"])
    def squash(s):
        return re.sub(r"[^a-z0-9]", "", s.lower())
    for n, row in rd.items():
        if row["vendor"] is None and row["code"] in dn:
            acc.counters["definitions_rows_compared"] += 1
            if squash(dn[row["code"]]) != squash(row["name"]):
                acc.violation("definitions-name-differs", "definitions.py names code %d %r; dictionary %r" % (row["code"], dn[row["code"]], row["name"]),
                              {"class": n, "definitions": dn[row["code"]], "want": row["name"]})


def later_classes(acc, g, rng):
    """'... and any added later': a DiameterAVP subclass an application defines after the library has already decoded traffic
    joins the dictionary - decoding dispatches its (vendor, code) to it and its type is enforced on decode."""
    from bromelia.base import DiameterAVP
    from bromelia.types import Unsigned32Type, UTF8StringType
    from bromelia.utils import convert_to_4_bytes
    import bromelia.avps as A
    # the dictionary has been in use
    for _ in range(3):
        DiameterAVP.load(R.encode_avp(R.LAvp(264, 0x40, None, b"host.example")))
    for i in range(6):
        vendor = rng.choice([None, 10415, 13019, 41000 + rng.randrange(1000)])
        code = 61000 + rng.randrange(3000)
        base = (Unsigned32Type, UTF8StringType)[i % 2]

        def mk(vendor=vendor, code=code, base=base, i=i):
            class LaterAVP(DiameterAVP, base):
                pass
            LaterAVP.__name__ = LaterAVP.__qualname__ = "Later%d%sAVP" % (i, base.__name__)
            LaterAVP.code = convert_to_4_bytes(code)
            LaterAVP.vendor_id = convert_to_4_bytes(vendor) if vendor is not None else None

            def __init__(self, data, cls=LaterAVP):
                if cls.vendor_id is not None:
                    DiameterAVP.__init__(self, cls.code, cls.vendor_id)
                    DiameterAVP.set_vendor_id_bit(self, True)
                    DiameterAVP.set_mandatory_bit(self, True)
                    base.__init__(self, data=data, vendor_id=cls.vendor_id)
                else:
                    DiameterAVP.__init__(self, cls.code)
                    DiameterAVP.set_mandatory_bit(self, True)
                    base.__init__(self, data=data)
            LaterAVP.__init__ = __init__
            return LaterAVP
        cls = mk()
        good = (rng.randrange(2 ** 32).to_bytes(4, "big") if base is Unsigned32Type else b"later value %d" % i)
        wire = R.encode_avp(R.LAvp(code, 0x40 | (0x80 if vendor is not None else 0), vendor, good))
        acc.evaluations += 1
        acc.counters["later_class_decodes"] += 1
        wit = {"class": cls.__name__, "vendor": vendor, "code": code, "wire": wire.hex()}
        try:
            got = DiameterAVP.load(wire)
        except BaseException as ex:
            acc.violation("later-class-decode-raises", "decoding an AVP of a class defined later raised %r" % (ex,), wit)
            continue
        if len(got) != 1 or type(got[0]) is not cls:
            acc.violation("load-dispatch-later-class-not-used", "(%r, %d) decoded as %s after %s was defined" % (vendor, code, [type(x).__name__ for x in got], cls.__name__), wit)
            continue
        if got[0].dump() != wire:
            acc.violation("later-class-redump-differs", "%s re-serialises differently" % cls.__name__, dict(wit, again=got[0].dump().hex()))
        if base is Unsigned32Type:
            bad = R.encode_avp(R.LAvp(code, 0x40 | (0x80 if vendor is not None else 0), vendor, b"\x01\x02\x03"))
            try:
                out = DiameterAVP.load(bad)
            except BaseException:
                acc.counters["later_class_type_enforced"] += 1
            else:
                acc.violation("Unsigned32-accepts-bytes-w3-on-decode-of-later-class", "a 3-byte value for %s (Unsigned32) was decoded as %s without an error" % (
                    cls.__name__, [type(x).__name__ for x in out]), dict(wit, bad=bad.hex()))
    acc.sigs.add("later-classes")


def run_batch(b):
    import random
    acc = harness.Acc()
    g = Gen(b["seed"])
    if b["kind"] == "dictionary":
        dictionary_checks(acc, g)
        acc.sample({"dictionary_rows": len(g.rd["avps"])})
        return acc
    if b["kind"] == "later":
        later_classes(acc, g, random.Random(b["seed"]))
        return acc
    rng = random.Random(b["seed"])
    for cname in b["classes"]:
        cls = g.by_name[cname]
        row = g.rd["avps"].get(cname)
        if row is None:
            continue
        kind = row["type"]
        if kind == "Grouped":
            check_grouped(acc, g, cls, row)
            continue
        for vclass, value in out_of_domain_values(kind, row, rng):
            check_value(acc, cls, row, vclass, value)
        # in-domain random values through the same contract (accepted + correctly encoded)
        for i in range(b["n_in"]):
            spec = g.avp(cls)
            acc.evaluations += 1
            try:
                obj = spec.build()
            except BaseException as ex:
                acc.observe("in-domain-rejected:%s:%s" % (kind, type(ex).__name__))
                continue
            acc.counters["accepted"] += 1
            got = obj.dump()
            if got != R.encode_avp(spec.lavp):
                acc.violation("%s-misencodes-in-domain" % kind, "%s: %s" % (cname, spec.describe()), {"spec": spec.describe(), "got": got.hex()})
        acc.sample({"class": cname, "kind": kind, "values": [v[0] for v in out_of_domain_values(kind, row, rng)][:6]}, limit=2)
    return acc


def main(tier, seed):
    t0 = time.time()
    q = tier == "quick"
    names = sorted({c.__name__ for c in discover.avp_classes()})
    batches = [{"kind": "dictionary", "seed": seed}]
    for i in range(0, len(names), 8):
        batches.append({"kind": "types", "classes": names[i:i + 8], "seed": seed * 31 + i, "n_in": 60 if q else 40000})
    for i in range(2 if q else 16):
        batches.append({"kind": "later", "seed": seed * 911 + i})
    acc = harness.run_workers("checks.c10_dictionary", "run_batch", batches, 1500)
    return harness.finish(PROP, tier, seed, "exploration", acc, RULE,
                          ["refdict.json is the published dictionary: frozen from the reviewed pinned tree, codes/vendors/types "
                           "checked by hand against RFC 6733/4006/4072/5447/7155 and 3GPP TS 29.212/.214/.229/.272/.273/.329; "
                           "M/P default flags are frozen, not independently verified",
                           "IPFilterRule == OctetString on the wire (RFC 6733 4.3.1); Value-Digits (Integer64 in RFC 4006) is an 8-byte integer",
                           "booleans, Address families other than 1/2, int arguments for Integer32/Enumerated and URI details beyond the scheme are observed, not judged"],
                          t0, require_counters=("rejected", "accepted", "refdict_rows_compared", "instances_checked", "foreign_pair_decodes", "docs_rows_compared",
                                                "definitions_rows_compared", "later_class_decodes", "later_class_type_enforced"))


def replay(w):
    acc = harness.Acc()
    g = Gen(0)
    x = w["witness"]
    print("witness:", x)
    return 1
