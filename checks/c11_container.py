"""C11 - a message's named AVP view, AVP list and length stay coherent under mutation.

Class invariant evaluated after every container operation, against a list-based reference container with
identity semantics.  Exploration: DFS over operation sequences with abstract-state hashing (exhaustive to
closure for lists of bounded size), then random long sequences."""
import random
import time

from bvm import harness

PROP = "C11"
RULE = ("operations {append, extend, pop, cleanup, avps=, __setitem__, update_key, update_avps, update_avp, refresh} over a small AVP "
        "alphabet (equal-valued duplicates, same-name different-value, unknown, Grouped, Session-Id) on generic, decoded and typed "
        "messages; DFS with abstract-state hashing, exhaustive until closure for lists of <= MAXLEN AVPs (bounded depth), "
        "then random sequences of length <= 40; invariants I1 (names <-> list bijection by identity), I2 (has_avp), "
        "I3 (list order vs reference container), I4 (Message Length == len(dump())); distinct = distinct abstract states reached")

MAXLEN = 4


def fresh(kind):
    from bromelia.base import DiameterAVP
    from bromelia.avps import OriginHostAVP, ResultCodeAVP, VendorSpecificApplicationIdAVP, VendorIdAVP, AuthApplicationIdAVP, SessionIdAVP
    if kind == "A":
        return OriginHostAVP("a.b")
    if kind == "B":
        return OriginHostAVP("c.de")
    if kind == "U":
        return DiameterAVP(code=99999, data=b"xyz")
    if kind == "P":         # data of 1 byte: three bytes of padding
        return DiameterAVP(code=99997, data=b"q")
    if kind == "V":
        return DiameterAVP(code=99998, vendor_id=4242, flags=0x80, data=b"xy")
    if kind == "G":
        return VendorSpecificApplicationIdAVP([VendorIdAVP(10415), AuthApplicationIdAVP(16777251)])
    if kind == "R":
        return ResultCodeAVP(2001)
    if kind == "S":
        return SessionIdAVP(b"host;1;2")
    raise AssertionError(kind)


def names_of(msg):
    return {k: v for k, v in msg.__dict__.items() if "_avp" in k and k != "_avps"}


def label(obj):
    d = obj.data if obj.data is not None else b""
    return "%d:%s" % (obj.get_code(), d[:6].hex())


def abstract(msg):
    lst = msg._avps
    names = names_of(msg)
    idx = {id(o): i for i, o in enumerate(lst)}
    return (tuple(label(o) for o in lst),
            tuple(sorted((k, idx.get(id(v), -1)) for k, v in names.items())),
            msg.header.get_length() - len(msg.dump()))


class Ref:
    """list-based reference container: identity semantics"""

    def __init__(self, msg):
        self.lst = list(msg._avps)


def invariants(msg, ref):
    """-> list of (invariant id, text)"""
    out = []
    lst = msg._avps
    names = names_of(msg)
    listed = {id(o) for o in lst}
    named = {}
    for k, v in names.items():
        named.setdefault(id(v), []).append(k)
    for k, v in names.items():
        if id(v) not in listed:
            out.append(("I1-name-for-unlisted-avp", "attribute %s refers to an AVP that is not in the list" % k))
    slots = {}
    for o in lst:
        slots[id(o)] = slots.get(id(o), 0) + 1
    for o in lst:
        n = named.get(id(o), [])
        # one name per list slot: an object that the application appended twice holds two slots and two names
        if len(n) != slots[id(o)]:
            out.append(("I1-listed-avp-has-%d-names" % len(n), "AVP %s fills %d slot(s) and has names %r" % (label(o), slots[id(o)], n)))
    for k in names:
        try:
            if not msg.has_avp(k):
                out.append(("I2-has_avp-false-for-bound-name", "has_avp(%r) is False although the name is bound" % k))
        except BaseException as ex:
            out.append(("I2-has_avp-raises", "has_avp(%r) raised %r" % (k, ex)))
    for probe in ("origin_host_avp", "origin_host_avp__1", "result_code_avp", "renamed_avp", "unknown_avp"):
        try:
            if msg.has_avp(probe) != (probe in names):
                out.append(("I2-has_avp-disagrees", "has_avp(%r) = %r, name bound = %r" % (probe, msg.has_avp(probe), probe in names)))
        except BaseException as ex:
            out.append(("I2-has_avp-raises", "has_avp(%r) raised %r" % (probe, ex)))
    got = [id(o) for o in msg.avps]
    want = [id(o) for o in ref.lst]
    if got != want:
        out.append(("I3-list-differs-from-reference", "list is %s, reference container %s" % ([label(o) for o in msg.avps], [label(o) for o in ref.lst])))
    sib = msg.__dict__.get("_bvm_sibling")
    if sib is not None:
        # the message this one was converted from lives on beside it, untouched: its own length field and list stay its own
        if sib.header.get_length() != len(sib.dump()):
            out.append(("I4-message-length-of-the-message-it-was-converted-from", "the other message's Message Length %d, its serialised size %d" % (sib.header.get_length(), len(sib.dump()))))
        if [id(o) for o in sib._avps] != msg.__dict__.get("_bvm_sibling_ids"):
            out.append(("I3-list-of-the-message-it-was-converted-from-changed", "the other message's AVP list changed"))
    if msg.header.get_length() != len(msg.dump()):
        out.append(("I4-message-length", "Message Length %d, serialised size %d" % (msg.header.get_length(), len(msg.dump()))))
    return out


# ---- operations: each returns a description and applies itself to both the message and the reference ----------

def op_append(kind):
    def f(msg, ref):
        a = fresh(kind)
        msg.append(a)
        ref.lst.append(a)
    f.__name__ = "append(%s)" % kind
    f.base = "append"
    return f


def op_extend(kinds):
    def f(msg, ref):
        avps = [fresh(k) for k in kinds]
        msg.extend(avps)
        ref.lst.extend(avps)
    f.__name__ = "extend(%s)" % kinds
    f.base = "extend"
    return f


def op_pop(which):
    def f(msg, ref):
        names = list(names_of(msg))
        if not names:
            try:
                msg.pop("origin_host_avp")
            except BaseException:
                return
            return
        key = names[0] if which == "first" else names[-1] if which == "last" else names[len(names) // 2]
        target = msg.__dict__[key]
        dup = sum(1 for o in ref.lst if o is not target and o.dump() == target.dump()) > 0
        f.detail = "equal-duplicate" if dup else "unique"
        msg.pop(key)
        for i, o in enumerate(ref.lst):
            if o is target:
                del ref.lst[i]
                break
    f.__name__ = "pop(%s)" % which
    f.base = "pop"
    return f


def op_append_again(msg, ref):
    """the application appends an AVP object that is already listed (the same object, a second slot)"""
    if not ref.lst:
        return
    a = ref.lst[len(ref.lst) // 2]
    msg.append(a)
    ref.lst.append(a)
op_append_again.base = "append-same-object"


def op_cleanup(msg, ref):
    msg.cleanup()
    ref.lst[:] = []
op_cleanup.base = "cleanup"


def op_setavps(kinds):
    def f(msg, ref):
        avps = [fresh(k) for k in kinds]
        msg.avps = avps
        ref.lst[:] = avps
    f.__name__ = "avps=%s" % kinds
    f.base = "avps-setter"
    return f


def op_setitem(pos, kind):
    def f(msg, ref):
        if not ref.lst:
            return
        i = 0 if pos == "first" else len(ref.lst) - 1
        a = fresh(kind)
        msg[i] = a
        ref.lst[i] = a
    f.__name__ = "setitem(%s,%s)" % (pos, kind)
    f.base = "setitem"
    return f


def op_update_key(msg, ref):
    names = list(names_of(msg))
    if not names or "renamed_avp" in names:
        return
    msg.update_key(names[0], "renamed_avp")
op_update_key.base = "update_key"


def op_refused(kind):
    """calls the message must refuse; whatever part of them it carried out before refusing, names, list and length stay coherent"""
    def f(msg, ref):
        names = list(names_of(msg))
        if kind == "append-non-avp":
            msg.append("not an AVP")
        elif kind == "extend-with-junk-at-the-end":
            msg.extend([fresh("A"), fresh("U"), 42])
        elif kind == "avps=-with-junk":
            msg.avps = [fresh("S"), None]
        elif kind == "pop-unknown":
            msg.pop("no_such_avp")
        elif kind == "setitem-out-of-range":
            msg[len(msg._avps) + 3] = fresh("A")
        elif kind == "update_avp-unknown":
            msg.update_avp("no_such_avp", "x")
        elif kind == "update_key-unknown":
            msg.update_key("no_such_avp", "other_avp")
        elif kind == "update_avps-unknown":
            msg.update_avps({"no_such": "x", "origin_host": "y.z"} if "origin_host_avp" in names else {"no_such": "x"})
    f.__name__ = "refused(%s)" % kind
    f.base = "refused-" + kind
    f.resync = True
    return f


def op_update_key_clash(msg, ref):
    """a renaming the message must refuse (the new name belongs to another listed AVP): refused or not, names, list and
    length stay coherent"""
    names = list(names_of(msg))
    if len(names) < 2:
        return
    msg.update_key(names[0], names[-1])
op_update_key_clash.base = "update_key"


def op_update_avps(value, strict=False):
    def f(msg, ref):
        names = names_of(msg)
        target = names.get("origin_host_avp")
        if strict:
            # silent_errors=False: the same update when the key exists, a library error (nothing changed) when it does not
            msg.update_avps({"origin_host": value}, silent_errors=False)
        else:
            msg.update_avps({"origin_host": value})
        if target is not None:
            # data changes only: the slot keeps its position; the (single) object now bound to the name must be the one listed
            for i, o in enumerate(ref.lst):
                if o is target:
                    new = msg.__dict__.get("origin_host_avp")
                    ref.lst[i] = new if new is not None else o
                    if new is not None and (new.data != value.encode() or new.get_code() != 264):
                        f.detail = "wrong-data"
                    break
    f.__name__ = "update_avps(origin_host=%s%s)" % (value, ",strict" if strict else "")
    f.base = "update_avps"
    return f


def op_update_avp(value):
    """the singular form: replaces the object bound to origin_host_avp by a new one of the same class, in the same slot"""
    def f(msg, ref):
        target = names_of(msg).get("origin_host_avp")
        if target is None:
            return
        msg.update_avp("origin_host_avp", value)
        new = msg.__dict__.get("origin_host_avp")
        for i, o in enumerate(ref.lst):
            if o is target:
                ref.lst[i] = new if new is not None else o
                if new is not None and (new.data != value.encode() or new.get_code() != 264):
                    f.detail = "wrong-data"
                break
    f.__name__ = "update_avp(origin_host_avp=%s)" % value
    f.base = "update_avp"
    return f


def op_refresh(msg, ref):
    msg.refresh()
op_refresh.base = "refresh"


OPS = [op_append("A"), op_append("A"), op_append("B"), op_append("U"), op_append("G"), op_append("R"), op_append("V"), op_append("P"),
       op_pop("first"), op_pop("last"), op_pop("mid"), op_cleanup, op_setavps("AB"), op_setavps("A"), op_setitem("first", "B"),
       op_setitem("last", "A"), op_setitem("last", "U"), op_setitem("first", "P"), op_update_key, op_update_key_clash, op_refused("append-non-avp"), op_refused("extend-with-junk-at-the-end"), op_refused("avps=-with-junk"), op_refused("pop-unknown"),
       op_refused("setitem-out-of-range"), op_refused("update_avp-unknown"), op_refused("update_key-unknown"), op_refused("update_avps-unknown"),
       op_update_avps("new.host"), op_update_avps("x"), op_update_avps("strict.host", strict=True), op_refresh,
       op_extend("AU"), op_append("S"), op_update_avp("a.much.longer.host.name"), op_update_avp("q"), op_append_again]
OPS = OPS[1:]   # one append(A) is enough: every call creates a fresh, equal-valued object


def start_message(kind):
    from bromelia.base import DiameterMessage, DiameterHeader
    if kind == "generic":
        return DiameterMessage(DiameterHeader(command_code=280))
    if kind == "decoded":
        m = DiameterMessage(DiameterHeader(command_code=280, application_id=7), [fresh("A"), fresh("R"), fresh("U")])
        return DiameterMessage.load(m.dump())[0]
    if kind == "decoded-empty":
        # a message that came off the wire with no AVPs at all (the bare 20-byte header)
        return DiameterMessage.load(DiameterMessage(DiameterHeader(command_code=280, application_id=7)).dump())[0]
    if kind == "request-class":
        from bromelia.base import DiameterRequest
        return DiameterRequest(command_code=316, application_id=16777251, avps=[fresh("S"), fresh("A")])
    if kind == "typed":
        from bromelia.lib.ietf_rfc6733 import DWR
        return DWR(origin_host="a.b", origin_realm="b")
    if kind in ("converted", "converted-from"):
        # two messages: a typed one and the generic message DiameterMessage.convert() makes of it; the operations go to one of
        # them (the copy / the original), the invariants look at both
        from bromelia.lib.ietf_rfc6733 import DWR
        orig = DWR(origin_host="a.b", origin_realm="b")
        conv = DiameterMessage.convert(orig)
        msg, other = (conv, orig) if kind == "converted" else (orig, conv)
        msg.__dict__["_bvm_sibling"] = other
        msg.__dict__["_bvm_sibling_ids"] = [id(o) for o in other._avps]
        return msg
    raise AssertionError(kind)


def apply(acc, msg, ref, op, trace):
    """Apply op; returns False if the path must stop (violation or unusable state)."""
    name = getattr(op, "__name__", "op")
    op.detail = None
    try:
        op(msg, ref)
        if getattr(op, "resync", False):
            ref.lst[:] = list(msg._avps)        # an ill-formed call the message chose to carry out (in part): taken as it is
    except BaseException as ex:
        import bromelia.exceptions as E
        if type(ex).__module__ == E.__name__ or (getattr(op, "resync", False) and isinstance(ex, (KeyError, IndexError, TypeError, AttributeError, ValueError))):
            acc.counters["library_error_ops"] += 1
            # rejected operation: both containers must be unchanged -> fall through to the invariants
            # (for the deliberately ill-formed calls, whatever part was carried out before the refusal is taken as it is)
            if getattr(op, "resync", False):
                ref.lst[:] = list(msg._avps)
                acc.counters["refused_calls"] += 1
        else:
            acc.violation("%s-raises-%s" % (op.base, type(ex).__name__), "%s raised %r after %s" % (name, ex, trace),
                          {"trace": trace + [name]})
            return False
    acc.counters["operations"] += 1
    bad = invariants(msg, ref)
    if bad:
        for inv, text in bad[:2]:
            key = "%s-after-%s" % (inv, op.base)
            if op.detail:
                key += "-" + op.detail
            acc.violation(key, "%s after %s: %s" % (inv, trace + [name], text), {"trace": trace + [name]})
        return False
    return True


def rebuild(start, trace_idx):
    msg = start_message(start)
    ref = Ref(msg)
    for i in trace_idx:
        try:
            OPS[i](msg, ref)
        except BaseException:
            pass        # a call the message refused when the path was first walked: judged there, the walk went on from what was left
        if getattr(OPS[i], "resync", False):
            ref.lst[:] = list(msg._avps)
    return msg, ref


def dfs(acc, start, maxdepth, budget, first=None):
    seen = set()
    msg = start_message(start)
    ref = Ref(msg)
    if invariants(msg, ref):
        for inv, text in invariants(msg, ref):
            acc.violation("%s-at-start-%s" % (inv, start), text, {"start": start})
        return
    stack = [[]]
    seen.add(abstract(msg))
    if first is not None:
        # the thorough tier splits the search by its first operation (one worker each); the state sets are then per worker
        if not apply(acc, msg, ref, OPS[first], []):
            return
        seen.add(abstract(msg))
        stack = [[first]]
    closed = True
    while stack:
        path = stack.pop()
        if acc.counters["operations"] > budget:
            closed = False
            break
        for oi, op in enumerate(OPS):
            try:
                msg, ref = rebuild(start, path)
            except BaseException:
                break
            trace = [getattr(OPS[i], "__name__", "op") for i in path]
            acc.evaluations += 1
            if not apply(acc, msg, ref, op, trace):
                continue
            if len(ref.lst) > MAXLEN:
                continue
            st = abstract(msg)
            if st in seen:
                continue
            seen.add(st)
            if len(path) + 1 < maxdepth:
                stack.append(path + [oi])
            else:
                closed = False
    acc.sigs.update(harness.sig_hash(repr(s)) for s in seen)
    tag = start if first is None else "%s/%d" % (start, first)
    acc.extra["closed_%s" % tag] = 1 if closed else 0
    acc.extra["states_%s" % tag] = len(seen)


def random_walks(acc, rng, n, maxlen):
    for _ in range(n):
        start = rng.choice(["generic", "decoded", "typed", "decoded-empty", "request-class", "converted", "converted-from"])
        msg = start_message(start)
        ref = Ref(msg)
        trace = []
        for _ in range(rng.randrange(1, maxlen)):
            op = rng.choice(OPS)
            acc.evaluations += 1
            if not apply(acc, msg, ref, op, trace):
                break
            trace.append(getattr(op, "__name__", "op"))
            if len(ref.lst) > 12:
                break
            acc.sigs.add(harness.sig_hash(repr(abstract(msg))))
    acc.sample({"random_walk": trace[:15]})


def run_batch(b):
    acc = harness.Acc()
    if b["kind"] == "dfs":
        dfs(acc, b["start"], b["maxdepth"], b["budget"], b.get("first"))
        acc.sample({"dfs_start": b["start"], "ops": [getattr(o, "__name__", "op") for o in OPS]})
    else:
        random_walks(acc, random.Random(b["seed"]), b["n"], 40)
    return acc


def main(tier, seed):
    t0 = time.time()
    q = tier == "quick"
    starts = ("generic", "decoded", "typed", "decoded-empty", "request-class", "converted", "converted-from")
    if q:
        batches = [{"kind": "dfs", "start": s, "maxdepth": 12, "budget": 12000} for s in starts]
    else:
        batches = [{"kind": "dfs", "start": s, "maxdepth": 12, "budget": 50000, "first": i} for s in starts for i in range(len(OPS))]
    for i in range(8 if q else 32):
        batches.append({"kind": "random", "n": 400 if q else 6000, "seed": seed * 4093 + i})
    acc = harness.run_workers("checks.c11_container", "run_batch", batches, 3000)
    closed = {k: v for k, v in acc.extra.items() if k.startswith("closed_")}
    return harness.finish(PROP, tier, seed, "exploration", acc, RULE,
                          ["names are the attributes whose key contains '_avp' (the library's own convention)",
                           "update_avps is specified as 'data changes only': the slot keeps its position and the one object bound to the name must be the one listed",
                           "a path stops at its first violation (the state is corrupt afterwards)"],
                          t0, extra_cov={"exhaustive_closure_reached": closed, "maxlen": MAXLEN},
                          require_counters=("operations",))


def replay(w):
    print("witness trace:", w["witness"].get("trace"))
    return 1
