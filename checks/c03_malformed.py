"""C03 - malformed input is rejected cleanly and never wedges the decoder or the node.

Part A (this module's 'decoder' batches): step-bound guard + exception-class oracle on DiameterMessage.load.
Part B (live node) lives in checks/c03b_node.py and is merged here once the scheduler machinery is present."""
import random
import time

from bvm import harness, refcodec as R
from bvm.gen import Gen
from bvm.guards import DecoderGuard, NonTerminatingDecode, innermost_site

PROP = "C03"
RULE = ("corpus of well-formed messages (generated as for C02, plus base-protocol messages) x systematic faults: every "
        "truncation point; every length field (Message Length and each AVP length at every depth) set to 0..24, true+-1, "
        "true+-4, 2^24-1 and random values (thorough: all 2^24 values at two length fields); single-bit flips of every "
        "header/AVP-header byte; typed payload faults (wrong widths, unknown enumerators, bad address family/width, "
        "invalid UTF-8, Grouped without mandatory members); 1..19 trailing garbage bytes; random strings of 0..256 bytes; "
        "oracle: loop-iteration bound 4*len+64 per decode call, exception class must be defined in bromelia.exceptions; "
        "distinct = (fault class, target field kind, outcome class)")


def corpus(g, n):
    msgs = []
    # base-protocol shaped messages with typed content
    for _ in range(n):
        f = g.header_fields()
        lm = R.LMsg(1, g.rng.choice([0x80, 0x00, 0xc0, 0x40]), g.rng.choice([257, 280, 282, 316, 318, 272, f["code"]]),
                    g.rng.choice([0, 16777251, f["app_id"]]), f["hbh"], f["e2e"], [])
        for _ in range(g.rng.randrange(1, 7)):
            lm.avps.append(g.any_avp(maxdepth=4).lavp)
        msgs.append(lm)
    return msgs


def decode(acc, guard, stream, fault, wit):
    """Run the real decoder under the guard; classify the outcome."""
    from bromelia.base import DiameterMessage
    acc.evaluations += 1
    acc.counters["decodes"] += 1
    guard.arm(len(stream))
    try:
        msgs = DiameterMessage.load(stream)
        outcome = "returned"
    except NonTerminatingDecode as ex:
        outcome = "non-terminating"
        acc.violation("decoder-non-terminating", "load() of %d bytes exceeded its step bound (%s): %s" % (
            len(stream), fault, ex), dict(wit, stream=stream.hex()[:4000], fault=fault))
    except BaseException as ex:
        mod = type(ex).__module__
        if mod == "bromelia.exceptions":
            outcome = "library-error"
            acc.counters["library_errors"] += 1
        else:
            outcome = "leak:" + type(ex).__name__
            site = innermost_site(ex.__traceback__)
            acc.violation("decoder-leaks-%s-in-%s" % (type(ex).__name__, site), "load() raised %s: %s at %s (%s)" % (
                type(ex).__name__, ex, site, fault), dict(wit, stream=stream.hex()[:4000], fault=fault))
    finally:
        guard.disarm()
    acc.sigs.add(harness.sig_hash("%s/%s" % (fault, outcome)))
    return outcome


def deeply_nested(depth, code=279, vendor=None, app=16777251, cmd=316):
    """A well-framed message whose single AVP is a dictionary Grouped AVP nested `depth` times (built iteratively)."""
    import struct
    body = struct.pack(">IB", 1, 0x40) + (9).to_bytes(3, "big") + b"x" + bytes(3)
    for _ in range(depth):
        if vendor is None:
            body = struct.pack(">IB", code, 0x40) + (8 + len(body)).to_bytes(3, "big") + body
        else:
            body = struct.pack(">IB", code, 0xc0) + (12 + len(body)).to_bytes(3, "big") + struct.pack(">I", vendor) + body
    return b"\x01" + (20 + len(body)).to_bytes(3, "big") + b"\x80" + cmd.to_bytes(3, "big") + struct.pack(">III", app, 7, 8) + body


def faults_for(g, lm, level):
    """Yield (fault name, mutated stream)."""
    r = g.rng
    s = R.encode(lm)
    lay = R.layout(lm)
    n = len(s)
    # 1. truncation at every point
    for cut in range(0, n):
        yield "truncate:%s" % ("hdr" if cut < 20 else "body"), s[:cut]
    # 2. length fields
    def put(buf, off, val):
        return buf[:off] + val.to_bytes(3, "big") + buf[off + 3:]
    vals = lambda true: sorted(set(list(range(0, 25)) + [true - 4, true - 1, true + 1, true + 4, true + 3, 2 ** 24 - 1, 2 ** 23,
                                                      r.randrange(2 ** 24), r.randrange(0, max(2, n * 2))]) - {true})
    for v in vals(n):
        if 0 <= v < 2 ** 24:
            yield "msglen:%s" % ("lt20" if v < 20 else "short" if v < n else "long"), put(s, 1, v)
    for rec in lay:
        for v in vals(rec["len"]):
            if 0 <= v < 2 ** 24:
                yield "avplen:d%d:%s" % (rec["depth"], "lt-hdr" if v < rec["hdr"] else "short" if v < rec["len"] else "long"), put(s, rec["off"] + 5, v)
    # 3. bit flips in header and AVP headers
    offs = list(range(20))
    for rec in lay:
        offs += list(range(rec["off"], rec["off"] + rec["hdr"]))
    if level < 2:
        offs = r.sample(offs, min(len(offs), 40))
    for o in offs:
        for bit in range(8):
            b = bytearray(s)
            b[o] ^= 1 << bit
            yield "bitflip:%s" % ("hdr" if o < 20 else "avphdr"), bytes(b)
    # 5. trailing garbage
    for k in range(1, 20):
        yield "trailing:%d" % min(k, 5), s + bytes(r.randrange(256) for _ in range(k))
    # concatenation with a second copy and garbage in between
    yield "concat:clean", s + s
    yield "concat:garbage-between", s + b"\x01\x00" + s


def typed_faults(g):
    """Messages that are structurally well-formed but carry wrong typed payloads."""
    r = g.rng
    rd = g.rd["avps"]
    for cname, row in rd.items():
        kind = row["type"]
        datas = []
        if kind in ("Unsigned32", "Integer32", "Enumerated", "Time", "Unsigned64", "Integer64"):
            datas = [("width%d" % w, bytes(r.randrange(256) for _ in range(w))) for w in (0, 1, 3, 5, 7, 8, 9, 12)]
            if kind == "Enumerated":
                nm = max(row["values"]) + 7
                datas.append(("unknown-enumerator", nm.to_bytes(4, "big", signed=True)))
        elif kind == "Address":
            datas = [("empty", b""), ("1byte", b"\x00"), ("fam1-short", b"\x00\x01\x0a\x00"), ("fam1-long", b"\x00\x01" + bytes(7)),
                     ("fam2-short", b"\x00\x02" + bytes(5)), ("fam9", b"\x00\x09" + bytes(4)), ("text", b"10.0.0.1")]
        elif kind in ("UTF8String", "DiameterIdentity", "DiameterURI"):
            datas = [("bad-utf8", b"\xff\xfe\xfd"), ("bad-utf8-uri", b"aaa://\xff\xfe.example"), ("empty", b""), ("nul", b"\x00" * 5),
                     ("overlong", b"\xc0\xaf" * 4)]
        elif kind == "Grouped":
            datas = [("empty", b""), ("garbage", bytes(r.randrange(256) for _ in range(11))), ("member-overrun", b"\x00\x00\x01\x08\x40\x00\x00\x40abcd"),
                     ("member-len0", b"\x00\x00\x01\x08\x40\x00\x00\x00"), ("only-unknown-member", R.encode_avp(R.LAvp(99999, 0, None, b"zz")))]
        elif kind == "OctetString":
            datas = [("empty", b""), ("bad-tbcd", b"\xff\xff"), ("long", bytes(300))]
        for name, d in datas:
            flags = row["flags"]
            lm = R.LMsg(1, 0x80, 316, 16777251, r.randrange(2 ** 32), r.randrange(2 ** 32),
                        [R.LAvp(264, 0x40, None, b"peer.example.org"), R.LAvp(row["code"], flags, row["vendor"], d)])
            yield "typed:%s:%s" % (kind, name), R.encode(lm), cname


def hostile_texts():
    """text whose *shape* is hostile to a validating grammar (long runs of legal characters closed by an illegal one, nested
    separators): the time a decode takes may depend on the input's length, not on how a pattern matcher backtracks over it"""
    out = []
    for k in (12, 20, 26, 32, 44, 63, 120):
        out += [("label-run-%d-bad-tail" % k, b"aaa://" + b"a" * k + b"!"),
                ("dotted-run-%d-bad-tail" % k, b"aaas://" + b"ab." * (k // 3) + b"!"),
                ("dash-run-%d" % k, b"aaa://" + b"a-" * (k // 2) + b"\n"),
                ("digit-labels-%d" % k, b"aaa://" + b"1." * (k // 2) + b"x!"),
                ("port-run-%d" % k, b"aaa://host.example.com:" + b"9" * k + b";"),
                ("params-run-%d" % k, b"aaa://host.example.com:3868;transport=" + b"t" * k + b"!;protocol=" + b"p" * k + b"!"),
                ("semicolons-%d" % k, b"aaa://host.example.com" + b";" * k),
                ("bare-run-%d" % k, b"a" * k + b"!"),
                ("blank-run-%d" % k, b" " * k + b"x" + b" " * k + b"!"),
                ("session-like-%d" % k, b"a;" * k + b"!")]
    return out


def cpu_bounded_decodes(acc, cases, cpu_s=4.0):
    """Each decode runs in a forked child whose CPU-time limit (RLIMIT_CPU, soft) is re-armed before every case to
    `cpu_s` seconds above what the child has used so far: CPU seconds consumed, not wall-clock time, decide - a loaded machine
    does not change them.  An ordinary decode of these inputs (<= 1 KB) takes well under a millisecond, so the bound is a
    factor of several thousand.  A child killed by SIGXCPU names the case it was working on; it is restarted behind it."""
    import os, resource, signal, struct
    i = 0
    while i < len(cases):
        rfd, wfd = os.pipe()
        pid = os.fork()
        if pid == 0:
            try:
                os.close(rfd)
                from bromelia.base import DiameterMessage
                for j in range(i, len(cases)):
                    ru = resource.getrusage(resource.RUSAGE_SELF)
                    used = ru.ru_utime + ru.ru_stime
                    hard = resource.getrlimit(resource.RLIMIT_CPU)[1]
                    resource.setrlimit(resource.RLIMIT_CPU, (int(used + cpu_s) + 1, hard))
                    os.write(wfd, struct.pack(">Ib", j, 0))
                    try:
                        DiameterMessage.load(cases[j][1])
                        res = 1
                    except BaseException as ex:
                        res = 2 if type(ex).__module__ == "bromelia.exceptions" else 3
                    os.write(wfd, struct.pack(">Ib", j, res))
            finally:
                os._exit(0)
        os.close(wfd)
        data = b""
        while True:
            chunk = os.read(rfd, 65536)
            if not chunk:
                break
            data += chunk
        os.close(rfd)
        _, status = os.waitpid(pid, 0)
        recs = [struct.unpack(">Ib", data[k:k + 5]) for k in range(0, len(data) - len(data) % 5, 5)]
        finished = {j: res for j, res in recs if res}
        started = [j for j, res in recs if not res]
        for j, res in finished.items():
            acc.evaluations += 1
            acc.counters["cpu_bounded_decodes"] += 1
            acc.sigs.add(harness.sig_hash("hostile-text/%s/%d" % (cases[j][0], res)))
            if res == 3:
                acc.observe("hostile-text-decode-leaks-a-foreign-exception:%s" % cases[j][0].split(":")[0])
        last = started[-1] if started else i
        if os.WIFSIGNALED(status) and last not in finished:
            sig = os.WTERMSIG(status)
            if sig in (signal.SIGXCPU, signal.SIGKILL):
                acc.evaluations += 1
                acc.violation("decoder-exceeds-cpu-bound", "load() of %d bytes (%s) used more than %.0f s of CPU time without returning (an ordinary decode of this size takes < 1 ms)" % (
                    len(cases[last][1]), cases[last][0], cpu_s), {"fault": cases[last][0], "stream": cases[last][1].hex(), "signal": sig})
            else:
                acc.inconclusive.append("cpu-bounded decode child died with signal %d on %s" % (sig, cases[last][0]))
            i = last + 1
        elif last not in finished and not (os.WIFEXITED(status) and len(finished) and max(finished) == len(cases) - 1):
            acc.inconclusive.append("cpu-bounded decode child ended early (status %r) at %s" % (status, cases[last][0]))
            i = last + 1
        else:
            i = len(cases)


# ------------------------------------------------------------------------------------------------ part B: live node

# framed correctly (their Message Length is right), refused by the decoder or the validators as a whole: what follows them is intact
FRAMED_AND_REFUSED = {"u32-width-5", "unknown-enumerator", "bad-address-family-width", "grouped-missing-mandatory", "invalid-uri", "nested-bad-member",
                      "avp-length-overrun", "avp-length-0"}
DESYNC = {"garbage", "short-header-tail", "truncated-then-valid", "valid-then-garbage", "huge-declared-length"}
NODE_STATES = ["server-awaiting-cer", "client-awaiting-cea", "open-idle", "open-with-traffic", "closing"]


def malformed_inputs(rng):
    """[(class, bytes)] - bytes that may arrive on a live connection"""
    from bvm import node as N
    P = N.PEER
    ok_dwr = R.encode(N.dwr(hbh=1, e2e=1))
    out = [
        ("garbage", bytes(rng.randrange(256) for _ in range(rng.choice([1, 3, 19, 20, 21, 64, 300])))),
        ("message-length-0", b"\x01\x00\x00\x00" + bytes(16)),
        ("message-length-4", b"\x01\x00\x00\x04" + bytes(16)),
        ("short-header-tail", ok_dwr + b"\x01\x00\x00"),
        ("avp-length-overrun", R.encode(N.dwr())[:25] + b"\xff\xff\xff" + R.encode(N.dwr())[28:]),
        ("avp-length-0", R.encode(N.dwr())[:25] + b"\x00\x00\x00" + R.encode(N.dwr())[28:]),
        ("u32-width-5", R.encode(R.LMsg(1, 0x80, 280, 0, 5, 5, N.origin(*P) + [N.avp(278, b"\x00\x00\x00\x00\x01")]))),
        ("unknown-enumerator", R.encode(R.LMsg(1, 0x80, 282, 0, 6, 6, N.origin(*P) + [N.avp(273, N.u32(77))]))),
        ("bad-address-family-width", R.encode(R.LMsg(1, 0x80, 257, 0, 7, 7, N.origin(*P) + [N.avp(257, b"\x00\x01\x7f"), N.avp(266, N.u32(0)), N.avp(269, b"x", flags=0)]))),
        ("odd-address-family", R.encode(R.LMsg(1, 0x80, 257, 0, 7, 7, N.origin(*P) + [N.avp(257, b"\x00\x09ab"), N.avp(266, N.u32(0)), N.avp(269, b"x", flags=0)]))),
        ("invalid-utf8-origin-host-dwr", R.encode(R.LMsg(1, 0x80, 280, 0, 8, 8, [N.avp(264, b"\xff\xfe\xfd"), N.avp(296, P[1].encode())]))),
        ("invalid-utf8-origin-realm-cer", R.encode(N.cer(realm="x")).replace(b"\x00\x00\x01\x28\x40\x00\x00\x09x", b"\x00\x00\x01\x28\x40\x00\x00\x09\xff")),
        ("invalid-utf8-origin-host-cea", R.encode(R.LMsg(1, 0, 257, 0, 9, 9, [N.avp(268, N.u32(2001)), N.avp(264, b"\xc3\x28"), N.avp(296, P[1].encode())]))),
        ("grouped-missing-mandatory", R.encode(R.LMsg(1, 0xc0, 316, 16777251, 10, 10, N.origin(*P) + [N.avp(260, b"")]))),
        ("misaddressed-request", R.encode(N.app_request(11, dest_host="someone.else"))),
        ("invalid-uri", R.encode(R.LMsg(1, 0x40, 316, 16777251, 12, 12, N.origin(*P) + [N.avp(292, b"http://nope")]))),
        ("nested-bad-member", R.encode(R.LMsg(1, 0xc0, 316, 16777251, 13, 13, N.origin(*P) + [N.avp(297, R.encode_avp(N.avp(266, b"\x01")))]))),
        ("truncated-then-valid", R.encode(N.app_request(14))[:30]),
        ("valid-then-garbage", ok_dwr + bytes(rng.randrange(256) for _ in range(23))),
        ("huge-declared-length", b"\x01\xff\xff\xfc\x80\x00\x01\x18" + bytes(40)),
    ]
    out += [("deeply-nested-grouped-500", deeply_nested(500)), ("deeply-nested-grouped-3000", deeply_nested(3000)),
            ("deeply-nested-grouped-in-dwr", deeply_nested(900, app=0, cmd=280))]
    # framed, decodable (or nearly) application and base messages whose *content* is hostile: the bytes pass the splitter and
    # mostly the decoder, and reach the code that looks inside messages (logging, addressing rules, base-message validation)
    L = N.LOCAL
    hostile = [b"", b"\xff\xfe\xfd", b"\xc3\x28", b"a\x00b", "\u00e9\u4e2d".encode(), b"x" * 1000, b"\x80", b"ok.example"]
    text_avps = [1, 263, 264, 296, 293, 283, 282, 281, 269]      # User-Name, Session-Id, Origin-*, Destination-*, Route-Record, Error-Message, Product-Name

    def hostile_message(request, fixed=None):
        h = rng.randrange(1 << 32)
        avps = [N.avp(263, b"peer;1;%d" % (h & 0xffff))] + N.origin(*P)
        if request:
            avps += [N.avp(283, L[1].encode())] + ([N.avp(293, L[0].encode())] if rng.random() < 0.5 else [])
        else:
            avps.insert(1, N.avp(268, N.u32(rng.choice([2001, 3002, 5012, 0, 0xffffffff]))))
        picks = fixed or [(rng.choice(text_avps), rng.choice(hostile)) + ((rng.choice([10415, 0, 9]),) if rng.random() < 0.25 else ())
                          for _ in range(rng.randrange(1, 4))]
        for pick in picks:
            code, val = pick[:2]
            # a third element: the AVP carries the V flag and that Vendor-ID, so the node sees a base code it knows on an AVP
            # that is not the base AVP (it decodes as a generic AVP and the named attribute is absent)
            new = N.avp(code, val, flags=0xc0, vendor=pick[2]) if len(pick) > 2 else N.avp(code, val)
            repl = [i for i, x in enumerate(avps) if x.code == code]
            if repl and (fixed or rng.random() < 0.7):       # a named class always replaces the regular AVP of that code
                avps[repl[0]] = new
            else:
                avps.insert(rng.randrange(len(avps) + 1), new)
        if not fixed and rng.random() < 0.3:
            avps.append(N.avp(rng.choice([258, 278, 268, 273]), rng.choice([b"", b"\x01", N.u32(7) + b"\x00", N.u32(0xffffffff)])))
        app, code = rng.choice([(16777251, 316), (16777251, 318), (4, 272), (0, 274), (16777251, 8388620)])
        return R.encode(R.LMsg(1, (0x80 if request else 0) | rng.choice([0x40, 0x00]), code, app, h, h ^ 0x5a5a, avps))
    out += [
        ("hostile-content-request", hostile_message(True)),
        ("hostile-content-answer", hostile_message(False)),
        ("hostile-content-burst", b"".join(hostile_message(rng.random() < 0.6) for _ in range(rng.randrange(2, 6)))),
        ("empty-origin-host-request", hostile_message(True, [(264, b"")])),
    ]
    for code in (263, 264, 296, 293, 283, 268, 258):      # identity / addressing / result AVPs, vendor-flagged: present by code, absent by name
        val = {268: N.u32(2001), 258: N.u32(16777251)}.get(code, b"someone.else" if code in (293, 283) else L[0].encode())
        out.append(("vendor-flagged-avp-%d-request" % code, hostile_message(True, [(code, val, rng.choice([10415, 9]))])))
        out.append(("vendor-flagged-avp-%d-answer" % code, hostile_message(False, [(code, val, rng.choice([10415, 9]))])))
    # answers that refer to a request the node has sent itself (the bytes are completed in node_case once that request's
    # identifiers are known): the same answer twice, and an answer with the request's End-to-End but another Hop-by-Hop
    out += [("replayed-answer-to-own-request", b"@replay"), ("answer-known-e2e-other-hbh", b"@other-hbh")]
    # a flood: thousands of minimal messages (bare headers with command codes nobody knows) in one piece, far more than the
    # state machine takes per tick - the node may drop or answer them, it must not stop
    def bare(k):
        return R.encode(R.LMsg(1, (0x80, 0x00, 0xc0)[k % 3], 8388000 + k % 50, (0, 16777251, 99)[k % 3], 70000 + k, 0x77000000 + k, []))
    out += [("flood-of-3000-bare-messages", b"".join(bare(k) for k in range(3000)))]
    for code in text_avps:      # every text AVP the node may look into, once undecodable in a request and once in an answer
        out.append(("invalid-utf8-avp-%d-request" % code, hostile_message(True, [(code, rng.choice([b"\xffalice\xfe", b"\xc3\x28;1;2", b"\x80"]))])))
        out.append(("invalid-utf8-avp-%d-answer" % code, hostile_message(False, [(code, rng.choice([b"\xff\xfe", b"\x80abc"]))])))
    return out


def node_case(acc, case):
    from bvm import node as N, scen, vsched
    from bromelia.base import DiameterMessage
    rng = random.Random(case["seed"])
    st = case["state"]
    role = "server" if st == "server-awaiting-cer" else ("client" if st == "client-awaiting-cea" else case["role"])
    sc = N.Scenario(seed=case["seed"], strategy=case["strategy"], p=case.get("p", 0.1), role=role, apps=[16777251],
                    lines=case["strategy"] != "rr", max_steps=500_000 if not case["input"].startswith("flood") else 4_000_000, wall_s=90 if not case["input"].startswith("flood") else 240)
    inputs = dict(malformed_inputs(rng))
    data = inputs[case["input"]]
    wit = {"case": case, "bytes": data.hex()[:400]}
    with sc:
        scen.slow_ticker(0.001)
        s = sc.sched
        try:
            if role == "client":
                sc.listen()
            if st in ("server-awaiting-cer", "client-awaiting-cea"):
                sc.start_node()
                if not sc.connect_transport():
                    acc.inconclusive.append("transport set-up failed (%r)" % (case,))
                    return
                if role == "client":
                    s.run_until(lambda: sc._have_emitted(1), 20, "cer")
                    cer = sc.read_emitted()[0]
            else:
                if not sc.open():
                    acc.inconclusive.append("node did not open (%r)" % (case,))
                    return
                sc.read_emitted()
                if st == "open-with-traffic":
                    sc.inject(R.encode(N.app_request(500, dest_realm=N.LOCAL[1])) + R.encode(N.dwr(hbh=501, e2e=501)))
                    big = DiameterMessage.load(R.encode(N.app_request(556, size=2000, host=N.LOCAL[0], realm=N.LOCAL[1], dest_realm=N.PEER[1])))[0]
                    sc.node.send_message(big)
                if st == "closing":
                    sc.node.close()
                    s.run_until(lambda: sc.state() == "Closing", 5, "closing")
            if data in (b"@replay", b"@other-hbh"):
                if st in ("open-idle", "open-with-traffic"):
                    own = DiameterMessage.load(R.encode(N.app_request(801, host=N.LOCAL[0], realm=N.LOCAL[1], dest_realm=N.PEER[1])))[0]
                    sc.node.send_message(own)
                    s.run_until(lambda: any(N.marker_of(m) == 801 for m in (sc.read_emitted() or sc.emitted_msgs[-8:])), 5.0, "own-request-on-the-wire")
                    sent = [m for m in sc.emitted_msgs if N.marker_of(m) == 801]
                    hb, ee = (sent[-1].hbh, sent[-1].e2e) if sent else (801, 0x10000321)
                else:
                    hb, ee = 801, 0x10000321
                ans = N.app_answer(801)
                ans.hbh, ans.e2e = (hb, ee) if data == b"@replay" else ((hb + 1) & 0xffffffff, ee)
                data = R.encode(ans) * (2 if data == b"@replay" else 1)
                wit["bytes"] = data.hex()[:400]
            # ---- the malformed bytes arrive (sometimes fragmented)
            chunks = [rng.randrange(1, max(2, len(data)))] if (len(data) > 2 and rng.random() < 0.4) else None
            tail_dwr = bool(case.get("tail_dwr")) and case["input"] not in DESYNC and st in ("open-idle", "open-with-traffic")
            if tail_dwr:
                # a valid watchdog request follows in the very same segment: the refused message costs itself, nothing behind it
                data = data + R.encode(N.dwr(hbh=4141, e2e=4140))
                chunks = None
                acc.counters["valid_request_right_behind_the_malformed_message"] += 1
            sc.inject(data, chunks=chunks)
            s.run_until(lambda: not sc.node_sock.rx, 3.0, "consumed")
            s.run_until(lambda: False, 0.05, "react")
            # let a forced close (4 s linger) finish
            s.run_until(lambda: sc.state() == "Closed" and not s.live_tasks(), 6.0, "maybe-closing")
            acc.counters["node_scenarios"] += 1
            dead_owner = [l.name for l in s.locks if l.owner is not None and l.owner.done]
            state = sc.state()
            live = [t.name for t in s.live_tasks()]
            wit.update({"state": state, "deaths": s.deaths, "live_tasks": live, "locks_owned_by_finished_tasks": dead_owner,
                        "schedule": s.schedule_hash(), "choices": s.choices[:2000]})
            tag = "%s@%s" % (case["input"], st)
            if dead_owner:
                d = s.deaths[0] if s.deaths else {"task": "?", "type": "?", "exc": "?", "traceback": ""}
                acc.violation("lock-left-held-by-dead-task:%s:%s" % (d["task"].replace("client_", "").replace("server_", ""), d["type"]),
                              "after %s task %s died with %s holding %s: %s" % (tag, d["task"], d["exc"], dead_owner, d["traceback"][-300:]), wit)
                return
            cleanly_closed = state == "Closed" and not live and not sc.net.open_sockets()
            if s.deaths and not cleanly_closed:
                d = s.deaths[0]
                acc.violation("worker-died-connection-not-closed:%s:%s" % (d["task"].replace("client_", "").replace("server_", ""), d["type"]),
                              "after %s task %s died with %s and the connection was not closed cleanly (state %s, live %s): %s" % (
                                  tag, d["task"], d["exc"], state, live, d["traceback"][-300:]), wit)
                return
            if cleanly_closed:
                acc.counters["closed_cleanly"] += 1
            elif state in ("I-Open", "R-Open") and case["input"] in DESYNC:
                # the byte stream is out of frame for good (the bytes that follow belong, by the Message Length the peer
                # declared, to the unfinished message): local API calls must return and the node must still tear down
                done = []
                msg = DiameterMessage.load(R.encode(N.app_request(777, host=N.LOCAL[0], realm=N.LOCAL[1], dest_realm=N.PEER[1])))[0]
                s.spawn("api-caller", lambda: (sc.node.send_message(msg), done.append(1)))
                if not s.run_until(lambda: bool(done), 5.0, "send_message-returns"):
                    acc.violation("api-call-blocked-after-malformed-input:%s" % case["input"], "send_message() did not return after %s" % tag, dict(wit, blocked=s.blocked_report()))
                    return
                sc.node.close()
                s.run_until(lambda: False, 0.05, "dpr-goes-out")
                sc.peer_sock.close()
                if not s.run_until(lambda: sc.state() == "Closed" and not [t for t in s.live_tasks() if t.name != "api-caller"], 30.0, "teardown"):
                    acc.violation("teardown-does-not-complete-after-malformed-input:%s@%s" % (case["input"], st), "state %s tasks %s" % (sc.state(), s.blocked_report()), wit)
                    return
                acc.counters["stayed_responsive"] += 1
            elif state in ("I-Open", "R-Open"):
                # responsiveness: DWR answered, send_message returns, close() returns and Closed is reached
                sc.read_emitted()
                if tail_dwr and not any(N.name_of(m) == "DWA" and m.hbh == 4141 for m in sc.emitted_msgs) and case["input"] in FRAMED_AND_REFUSED:
                    acc.violation("valid-request-behind-a-malformed-message-ignored:%s" % case["input"], "the DWR that followed %s in the same segment was never answered (state %s)" % (tag, state), wit)
                    return
                sc.inject(R.encode(N.dwr(hbh=4242, e2e=4243)))
                ok = s.run_until(lambda: any(N.name_of(m) == "DWA" and m.hbh == 4242 for m in (sc.read_emitted() or sc.emitted_msgs[-6:])), 5.0, "probe")
                if not any(N.name_of(m) == "DWA" and m.hbh == 4242 for m in sc.emitted_msgs):
                    acc.violation("node-unresponsive-after-malformed-input:%s" % case["input"], "valid DWR not answered after %s (state %s, tasks %s)" % (
                        tag, state, s.blocked_report()), wit)
                    return
                done = []
                msg = DiameterMessage.load(R.encode(N.app_request(777, host=N.LOCAL[0], realm=N.LOCAL[1], dest_realm=N.PEER[1])))[0]
                s.spawn("api-caller", lambda: (sc.node.send_message(msg), done.append(1)))
                if not s.run_until(lambda: bool(done), 5.0, "send_message-returns"):
                    acc.violation("api-call-blocked-after-malformed-input:%s" % case["input"], "send_message() did not return after %s" % tag, dict(wit, blocked=s.blocked_report()))
                    return
                sc.node.close()
                s.run_until(lambda: any(N.name_of(m) == "DPR" for m in (sc.read_emitted() or sc.emitted_msgs[-8:])), 10.0, "dpr")
                d = [m for m in sc.emitted_msgs if N.name_of(m) == "DPR"]
                if d:
                    sc.inject(R.encode(N.dpa(hbh=d[-1].hbh, e2e=d[-1].e2e)))
                if not s.run_until(lambda: sc.state() == "Closed" and not [t for t in s.live_tasks() if t.name != "api-caller"], 30.0, "close"):
                    acc.violation("close-does-not-complete-after-malformed-input:%s" % case["input"], "state %s tasks %s" % (sc.state(), s.blocked_report()), wit)
                    return
                acc.counters["stayed_responsive"] += 1
            else:
                # not open (awaiting CE / closing): the node must at least still be able to finish: peer disconnect -> Closed
                sc.peer_sock.close()
                if not s.run_until(lambda: sc.state() == "Closed" and not s.live_tasks(), 30.0, "teardown"):
                    if s.deaths:
                        d = s.deaths[0]
                        acc.violation("worker-died-connection-not-closed:%s:%s" % (d["task"].replace("client_", "").replace("server_", ""), d["type"]),
                                      "after %s: %s" % (tag, d["traceback"][-300:]), wit)
                    else:
                        acc.violation("teardown-does-not-complete-after-malformed-input:%s@%s" % (case["input"], st), "state %s tasks %s" % (sc.state(), s.blocked_report()), wit)
                    return
                acc.counters["torn_down"] += 1
        except vsched.DeadlockError as ex:
            acc.violation("deadlock-after-malformed-input:%s" % case["input"], "deadlock: %s" % ex, dict(wit, stacks=sc.sched.stacks()))
        except N.NonTerminatingDecode as ex:
            acc.violation("decoder-non-terminating", str(ex), wit)
        except vsched.WallClock as ex:
            acc.inconclusive.append("%s (case %r)" % (ex, case))
        except vsched.StepBudget as ex:
            acc.violation("spin-after-malformed-input:%s" % case["input"], "%s; tasks %s" % (ex, sc.sched.blocked_report()), wit)
        cov = sc.coverage()
    acc.evaluations += 1
    acc.sigs.add(harness.sig_hash("node/%s/%s/%s" % (case["input"], st, cov["schedule"])))
    acc.counters["node_steps"] += cov["steps"]


def run_batch(b):
    acc = harness.Acc()
    if b["kind"] == "node":
        for case in b["cases"]:
            node_case(acc, case)
        acc.sample({"node_case": b["cases"][0]})
        return acc
    g = Gen(b["seed"])
    guard = DecoderGuard().install()
    r = g.rng
    if b["kind"] == "structural":
        for lm in corpus(g, b["n"]):
            for fault, stream in faults_for(g, lm, b["level"]):
                decode(acc, guard, stream, fault, {"message": lm.to_json()})
        acc.sample({"structural_faults_on": lm.to_json()["avps"][:1]})
    elif b["kind"] == "typed":
        for fault, stream, cname in typed_faults(g):
            decode(acc, guard, stream, fault, {"class": cname})
        # nesting depth is an attacker's choice too: 4 KB are enough for 500 levels, a 16 MB message for two million
        for code, vendor in ((279, None), (284, None), (260, None), (1401, 10415), (628, 10415)):
            for depth in (2, 40, 200, 340, 500, 1000, 5000, 40000):
                if depth * 8 + 40 > 400000:
                    continue
                decode(acc, guard, deeply_nested(depth, code, vendor), "deep-nesting:%d:depth%d" % (code, depth), {"depth": depth, "code": code})
                acc.counters["deep_nesting_decodes"] += 1
        acc.sample({"typed_fault_example": fault})
    elif b["kind"] == "hostile-text":
        cases = []
        rd = g.rd["avps"]
        names = sorted(n for n, row in rd.items() if row["type"] in ("UTF8String", "DiameterIdentity", "DiameterURI"))
        for cname in names[b["i"]::b["m"]]:
            row = rd[cname]
            for tname, text in hostile_texts():
                lm = R.LMsg(1, 0x80, 316, 16777251, 1, 2, [R.LAvp(264, 0x40, None, b"peer.example.org"), R.LAvp(row["code"], row["flags"], row["vendor"], text)])
                cases.append(("%s:%s:%s" % (row["type"], cname, tname), R.encode(lm)))
        if b["i"] == 0:
            # complete nests: a dictionary Grouped AVP nested in itself with every mandatory member present at every level (the
            # nests of the typed batch lack them and are refused at the first level).  The work of decoding them may grow with
            # the length of the input, not with 2^depth.
            for cname, row in sorted(rd.items()):
                if row["type"] != "Grouped" or not row["mandatory"]:
                    continue
                members = []
                usable = True
                for mname in row["mandatory"].values():
                    mrow = rd[mname]
                    if mrow["type"] == "Grouped":
                        usable = False
                        break
                    members.append(g.avp(g.by_name[mname]).lavp)
                if not usable:
                    continue
                for depth in (8, 14, 20, 32, 60, 150):
                    inner = R.LAvp(row["code"], row["flags"], row["vendor"], list(members))
                    for _ in range(depth):
                        inner = R.LAvp(row["code"], row["flags"], row["vendor"], list(members) + [inner])
                    lm = R.LMsg(1, 0x80, 316, 16777251, 1, 2, [R.LAvp(264, 0x40, None, b"peer.example.org"), inner])
                    cases.append(("complete-nest:%s:depth%d" % (cname, depth), R.encode(lm)))
                    acc.counters["complete_nests"] += 1
        cpu_bounded_decodes(acc, cases)
        acc.sample({"hostile_text_example": cases[0][0] if cases else None})
        return acc
    elif b["kind"] == "random":
        for _ in range(b["n"]):
            L = r.choice([0, 1, 2, 3, 4, 5, 19, 20, 21, 24, 28, r.randrange(0, 257)])
            s = bytes(r.randrange(256) for _ in range(L))
            if r.random() < 0.5 and L >= 4:
                s = b"\x01" + min(L, r.choice([L, 20, 0, 24])).to_bytes(3, "big") + s[4:]
            decode(acc, guard, s, "random:len%s" % ("<20" if L < 20 else ">=20"), {})
        acc.sample({"random_strings": b["n"]})
    elif b["kind"] == "sweep24":
        # exhaustive sweep of all 24-bit values at one length field of one corpus message
        lm = corpus(Gen(b["corpus_seed"]), 3)[b["msg"]]
        s = R.encode(lm)
        off = 1 if b["field"] == "msg" else R.layout(lm)[0]["off"] + 5
        for v in range(b["lo"], b["hi"]):
            decode(acc, guard, s[:off] + v.to_bytes(3, "big") + s[off + 3:], "sweep24:%s" % b["field"], {"value": v, "message": lm.to_json()})
        acc.extra["sweep24_values"] = b["hi"] - b["lo"]
    acc.extra["guard_max_iterations_seen"] = 0
    acc.counters["guard_armed"] += acc.counters["decodes"]
    return acc


def main(tier, seed):
    t0 = time.time()
    q = tier == "quick"
    batches = []
    for i in range(14 if q else 48):
        batches.append({"kind": "structural", "n": 3 if q else 25, "level": 1 if q else 2, "seed": seed * 8191 + i})
    batches.append({"kind": "typed", "seed": seed})
    for i in range(8):
        batches.append({"kind": "hostile-text", "seed": seed, "i": i, "m": 8})
    for i in range(2 if q else 16):
        batches.append({"kind": "random", "n": 4000 if q else 40000, "seed": seed * 8191 + 500 + i})
    if not q:
        step = 1 << 18
        for field, msg in (("msg", 0), ("avp", 1)):
            for lo in range(0, 1 << 24, step):
                batches.append({"kind": "sweep24", "field": field, "msg": msg, "lo": lo, "hi": lo + step, "corpus_seed": seed, "seed": seed})
    else:
        for field, msg in (("msg", 0), ("avp", 1)):
            batches.append({"kind": "sweep24", "field": field, "msg": msg, "lo": 0, "hi": 3000, "corpus_seed": seed, "seed": seed})
    rng = random.Random(seed)
    names = [n for n, _ in malformed_inputs(random.Random(0))]
    ncases = []
    for st in NODE_STATES:
        for inp in names:
            for rep in range(1 if q else 12):
                ncases.append({"seed": seed * 4099 + len(ncases), "state": st, "input": inp, "role": rng.choice(["client", "server"]),
                               "strategy": "rr" if rep == 0 else "rw", "p": rng.choice([0.02, 0.1, 0.3]), "tail_dwr": (len(ncases) + rep + seed) % 2 == 0})
    rng.shuffle(ncases)
    nb = 12 if q else 48
    for i in range(nb):
        batches.append({"kind": "node", "cases": ncases[i::nb]})
    acc = harness.run_workers("checks.c03_malformed", "run_batch", batches, 3000)
    harness.require_vnet_fidelity(acc)
    return harness.finish(PROP, tier, seed, "fault_enumeration", acc, RULE,
                          ["part A (decoder): step bound 4*len+64 loop iterations per decode call (both load loops); part B (live node): malformed bytes x connection states under the deterministic scheduler, judged by lock-owner, clean-close and responsiveness monitors",
                           "every library error derives from BaseException and lives in bromelia.exceptions",
                           "memory growth is bounded by the iteration bound plus RLIMIT_AS on the worker",
                           "hostile text (long legal runs closed by an illegal character, nested separators) in every text-typed dictionary AVP is decoded in a child process under a CPU-time limit of 4 s per decode (RLIMIT_CPU: consumed CPU seconds, not wall-clock time)"],
                          t0, extra_cov={"sweep24_exhaustive": not q},
                          require_counters=("decodes", "library_errors", "cpu_bounded_decodes", "complete_nests", "valid_request_right_behind_the_malformed_message", "guard_armed", "node_scenarios", "stayed_responsive", "deep_nesting_decodes"))


def replay(w):
    acc = harness.Acc()
    guard = DecoderGuard().install()
    s = bytes.fromhex(w["witness"]["stream"])
    print("outcome:", decode(acc, guard, s, w["witness"].get("fault", "replay"), {}))
    for v in acc.violations:
        print("VIOLATION property=C03 replay=<this>", v["what"][:300])
    return 1 if acc.violations else 0
