"""C03 - malformed input is rejected cleanly and never wedges the decoder or the node.

Part A (this module's 'decoder' batches): step-bound guard + exception-class oracle on DiameterMessage.load.
Part B (live node) lives in checks/c03b_node.py and is merged here once the scheduler machinery is present."""
import random
import time

from bvm import harness, refcodec as R
from bvm.gen import Gen
from bvm.guards import DecoderGuard, NonTerminatingDecode, innermost_site

PROP = "C03"
RULE = ("corpus of well-formed messages (generated as for C02, plus base-protocol messages) x systematic faults: every "
        "truncation point; every length field (Message Length and each AVP length at every depth) set to 0..24, true+-1, "
        "true+-4, 2^24-1 and random values (thorough: all 2^24 values at two length fields); single-bit flips of every "
        "header/AVP-header byte; typed payload faults (wrong widths, unknown enumerators, bad address family/width, "
        "invalid UTF-8, Grouped without mandatory members); 1..19 trailing garbage bytes; random strings of 0..256 bytes; "
        "oracle: loop-iteration bound 4*len+64 per decode call, exception class must be defined in bromelia.exceptions; "
        "distinct = (fault class, target field kind, outcome class)")


def corpus(g, n):
    msgs = []
    # base-protocol shaped messages with typed content
    for _ in range(n):
        f = g.header_fields()
        lm = R.LMsg(1, g.rng.choice([0x80, 0x00, 0xc0, 0x40]), g.rng.choice([257, 280, 282, 316, 318, 272, f["code"]]),
                    g.rng.choice([0, 16777251, f["app_id"]]), f["hbh"], f["e2e"], [])
        for _ in range(g.rng.randrange(1, 7)):
            lm.avps.append(g.any_avp(maxdepth=4).lavp)
        msgs.append(lm)
    return msgs


def decode(acc, guard, stream, fault, wit):
    """Run the real decoder under the guard; classify the outcome."""
    from bromelia.base import DiameterMessage
    acc.evaluations += 1
    acc.counters["decodes"] += 1
    guard.arm(len(stream))
    try:
        msgs = DiameterMessage.load(stream)
        outcome = "returned"
    except NonTerminatingDecode as ex:
        outcome = "non-terminating"
        acc.violation("decoder-non-terminating", "load() of %d bytes exceeded its step bound (%s): %s" % (
            len(stream), fault, ex), dict(wit, stream=stream.hex()[:4000], fault=fault))
    except BaseException as ex:
        mod = type(ex).__module__
        if mod == "bromelia.exceptions":
            outcome = "library-error"
            acc.counters["library_errors"] += 1
        else:
            outcome = "leak:" + type(ex).__name__
            site = innermost_site(ex.__traceback__)
            acc.violation("decoder-leaks-%s-in-%s" % (type(ex).__name__, site), "load() raised %s: %s at %s (%s)" % (
                type(ex).__name__, ex, site, fault), dict(wit, stream=stream.hex()[:4000], fault=fault))
    finally:
        guard.disarm()
    acc.sigs.add(harness.sig_hash("%s/%s" % (fault, outcome)))
    return outcome


def faults_for(g, lm, level):
    """Yield (fault name, mutated stream)."""
    r = g.rng
    s = R.encode(lm)
    lay = R.layout(lm)
    n = len(s)
    # 1. truncation at every point
    for cut in range(0, n):
        yield "truncate:%s" % ("hdr" if cut < 20 else "body"), s[:cut]
    # 2. length fields
    def put(buf, off, val):
        return buf[:off] + val.to_bytes(3, "big") + buf[off + 3:]
    vals = lambda true: sorted(set(list(range(0, 25)) + [true - 4, true - 1, true + 1, true + 4, true + 3, 2 ** 24 - 1, 2 ** 23,
                                                      r.randrange(2 ** 24), r.randrange(0, max(2, n * 2))]) - {true})
    for v in vals(n):
        if 0 <= v < 2 ** 24:
            yield "msglen:%s" % ("lt20" if v < 20 else "short" if v < n else "long"), put(s, 1, v)
    for rec in lay:
        for v in vals(rec["len"]):
            if 0 <= v < 2 ** 24:
                yield "avplen:d%d:%s" % (rec["depth"], "lt-hdr" if v < rec["hdr"] else "short" if v < rec["len"] else "long"), put(s, rec["off"] + 5, v)
    # 3. bit flips in header and AVP headers
    offs = list(range(20))
    for rec in lay:
        offs += list(range(rec["off"], rec["off"] + rec["hdr"]))
    if level < 2:
        offs = r.sample(offs, min(len(offs), 40))
    for o in offs:
        for bit in range(8):
            b = bytearray(s)
            b[o] ^= 1 << bit
            yield "bitflip:%s" % ("hdr" if o < 20 else "avphdr"), bytes(b)
    # 5. trailing garbage
    for k in range(1, 20):
        yield "trailing:%d" % min(k, 5), s + bytes(r.randrange(256) for _ in range(k))
    # concatenation with a second copy and garbage in between
    yield "concat:clean", s + s
    yield "concat:garbage-between", s + b"\x01\x00" + s


def typed_faults(g):
    """Messages that are structurally well-formed but carry wrong typed payloads."""
    r = g.rng
    rd = g.rd["avps"]
    for cname, row in rd.items():
        kind = row["type"]
        datas = []
        if kind in ("Unsigned32", "Integer32", "Enumerated", "Time", "Unsigned64", "Integer64"):
            datas = [("width%d" % w, bytes(r.randrange(256) for _ in range(w))) for w in (0, 1, 3, 5, 7, 8, 9, 12)]
            if kind == "Enumerated":
                nm = max(row["values"]) + 7
                datas.append(("unknown-enumerator", nm.to_bytes(4, "big", signed=True)))
        elif kind == "Address":
            datas = [("empty", b""), ("1byte", b"\x00"), ("fam1-short", b"\x00\x01\x0a\x00"), ("fam1-long", b"\x00\x01" + bytes(7)),
                     ("fam2-short", b"\x00\x02" + bytes(5)), ("fam9", b"\x00\x09" + bytes(4)), ("text", b"10.0.0.1")]
        elif kind in ("UTF8String", "DiameterIdentity", "DiameterURI"):
            datas = [("bad-utf8", b"\xff\xfe\xfd"), ("bad-utf8-uri", b"aaa://\xff\xfe.example"), ("empty", b""), ("nul", b"\x00" * 5),
                     ("overlong", b"\xc0\xaf" * 4)]
        elif kind == "Grouped":
            datas = [("empty", b""), ("garbage", bytes(r.randrange(256) for _ in range(11))), ("member-overrun", b"\x00\x00\x01\x08\x40\x00\x00\x40abcd"),
                     ("member-len0", b"\x00\x00\x01\x08\x40\x00\x00\x00"), ("only-unknown-member", R.encode_avp(R.LAvp(99999, 0, None, b"zz")))]
        elif kind == "OctetString":
            datas = [("empty", b""), ("bad-tbcd", b"\xff\xff"), ("long", bytes(300))]
        for name, d in datas:
            flags = row["flags"]
            lm = R.LMsg(1, 0x80, 316, 16777251, r.randrange(2 ** 32), r.randrange(2 ** 32),
                        [R.LAvp(264, 0x40, None, b"peer.example.org"), R.LAvp(row["code"], flags, row["vendor"], d)])
            yield "typed:%s:%s" % (kind, name), R.encode(lm), cname


def run_batch(b):
    acc = harness.Acc()
    g = Gen(b["seed"])
    guard = DecoderGuard().install()
    r = g.rng
    if b["kind"] == "structural":
        for lm in corpus(g, b["n"]):
            for fault, stream in faults_for(g, lm, b["level"]):
                decode(acc, guard, stream, fault, {"message": lm.to_json()})
        acc.sample({"structural_faults_on": lm.to_json()["avps"][:1]})
    elif b["kind"] == "typed":
        for fault, stream, cname in typed_faults(g):
            decode(acc, guard, stream, fault, {"class": cname})
        acc.sample({"typed_fault_example": fault})
    elif b["kind"] == "random":
        for _ in range(b["n"]):
            L = r.choice([0, 1, 2, 3, 4, 5, 19, 20, 21, 24, 28, r.randrange(0, 257)])
            s = bytes(r.randrange(256) for _ in range(L))
            if r.random() < 0.5 and L >= 4:
                s = b"\x01" + min(L, r.choice([L, 20, 0, 24])).to_bytes(3, "big") + s[4:]
            decode(acc, guard, s, "random:len%s" % ("<20" if L < 20 else ">=20"), {})
        acc.sample({"random_strings": b["n"]})
    elif b["kind"] == "sweep24":
        # exhaustive sweep of all 24-bit values at one length field of one corpus message
        lm = corpus(Gen(b["corpus_seed"]), 3)[b["msg"]]
        s = R.encode(lm)
        off = 1 if b["field"] == "msg" else R.layout(lm)[0]["off"] + 5
        for v in range(b["lo"], b["hi"]):
            decode(acc, guard, s[:off] + v.to_bytes(3, "big") + s[off + 3:], "sweep24:%s" % b["field"], {"value": v, "message": lm.to_json()})
        acc.extra["sweep24_values"] = b["hi"] - b["lo"]
    acc.extra["guard_max_iterations_seen"] = 0
    acc.counters["guard_armed"] += acc.counters["decodes"]
    return acc


def main(tier, seed):
    t0 = time.time()
    q = tier == "quick"
    batches = []
    for i in range(14 if q else 48):
        batches.append({"kind": "structural", "n": 3 if q else 25, "level": 1 if q else 2, "seed": seed * 8191 + i})
    batches.append({"kind": "typed", "seed": seed})
    for i in range(2 if q else 16):
        batches.append({"kind": "random", "n": 4000 if q else 40000, "seed": seed * 8191 + 500 + i})
    if not q:
        step = 1 << 18
        for field, msg in (("msg", 0), ("avp", 1)):
            for lo in range(0, 1 << 24, step):
                batches.append({"kind": "sweep24", "field": field, "msg": msg, "lo": lo, "hi": lo + step, "corpus_seed": seed, "seed": seed})
    else:
        for field, msg in (("msg", 0), ("avp", 1)):
            batches.append({"kind": "sweep24", "field": field, "msg": msg, "lo": 0, "hi": 3000, "corpus_seed": seed, "seed": seed})
    acc = harness.run_workers("checks.c03_malformed", "run_batch", batches, 3000)
    return harness.finish(PROP, tier, seed, "fault_enumeration", acc, RULE,
                          ["decoder part only in this module; step bound 4*len+64 loop iterations per decode call (both load loops)",
                           "every library error derives from BaseException and lives in bromelia.exceptions",
                           "memory growth is bounded by the iteration bound plus RLIMIT_AS on the worker"],
                          t0, extra_cov={"sweep24_exhaustive": not q},
                          require_counters=("decodes", "library_errors", "guard_armed"))


def replay(w):
    acc = harness.Acc()
    guard = DecoderGuard().install()
    s = bytes.fromhex(w["witness"]["stream"])
    print("outcome:", decode(acc, guard, s, w["witness"].get("fault", "replay"), {}))
    for v in acc.violations:
        print("VIOLATION property=C03 replay=<this>", v["what"][:300])
    return 1 if acc.violations else 0
