"""C05 - submitted messages are written to the socket exactly once, whole and in order.

History checker (submitted vs written) + conservation over executions of a real node under the deterministic
scheduler with partial-write scripts on the substituted socket."""
import os
import random
import time

from bvm import harness, refcodec as R, node as N, vsched

PROP = "C05"
RULE = ("1..4 submitter tasks x 1..30 messages each via send_message/send_messages (40 B .. >256 KiB aggregate) x "
        "(a third of the plain cases submit some messages again, as the same object or an equal copy) x partial-write scripts (full, fixed 1/7/50/4096 bytes, random, zero-window episodes) x concurrent inbound traffic "
        "(answers and DWRs; paced, or made readable at the instant a send() leaves bytes unwritten) on/off x schedules (round robin; random walk with line-level preemption); oracle: the bytes "
        "accepted by the peer side of the socket decode (reference decoder) into every submitted message exactly once and "
        "byte-identical, per-submitter order preserved, plus only whole node-originated base messages; "
        "distinct = (write script, inbound?, submitters, schedule hash); plus real-loopback executions (nothing substituted): "
        "3 application threads x 40 messages of 0..70 KB against a peer that reads 100 B..64 KB at a time through a 4..16 KB "
        "receive buffer (kernel-made partial writes and EAGAIN), inbound answers on/off, the same oracle, then a checked close")


def write_script(rng, kind):
    if kind == "full":
        return None
    if kind.startswith("fixed"):
        k = int(kind[5:])
        return lambda sock, n: min(n, k)
    if kind == "random":
        return lambda sock, n: max(1, min(n, rng.choice([1, 2, 3, 5, 19, 20, 21, 100, 1000, n])))
    if kind == "zero-window":
        state = {"i": 0}

        def f(sock, n):
            state["i"] += 1
            if state["i"] % 5 in (2, 3):
                return 0
            return max(1, min(n, rng.choice([7, 64, n])))
        return f
    raise AssertionError(kind)


def execute(acc, case):
    from bromelia.base import DiameterMessage
    rng = random.Random(case["seed"])
    sc = N.Scenario(seed=case["seed"], strategy=case["strategy"], p=case.get("p", 0.1), role=case["role"], apps=[16777251],
                    lines=case["strategy"] != "rr", max_steps=case.get("max_steps", 400_000), watchdog=case.get("watchdog", 30), transport=case.get("transport", "TCP"))
    wit = {"case": case}
    if case.get("transport") == "SCTP":
        acc.counters["sctp_executions"] += 1      # SctpClient/SctpServer over a fake pysctp module (bvm/vnet.py)
    with sc:
        try:
            if not sc.open():
                acc.inconclusive.append("node did not reach Open in the set-up phase (case %r)" % (case,))
                return
            sc.read_emitted()
            sc.net.write_len = write_script(rng, case["write"])
            if case.get("inbound_on_partial"):
                # directed window: the moment a send() leaves bytes unwritten, an application answer (which provokes no
                # reply that would re-arm the writer) becomes readable, so the next selector round reports READ and WRITE together
                base_script = sc.net.write_len
                budget = [case["inbound_on_partial"]]

                def script_with_inbound(sock, n):
                    k = base_script(sock, n)
                    if k < n and budget[0] > 0 and rng.random() < 0.6:
                        budget[0] -= 1
                        sock.rx += R.encode(N.app_answer(9500 + budget[0]))
                        acc.counters["inbound_injected_on_partial_write"] += 1
                    return k
                sc.net.write_len = script_with_inbound
            assoc = sc.node._association
            _flush = assoc.send_message_from_queue

            def counting_flush():
                _flush()
                if not assoc._send_messages.empty():
                    acc.counters["batch_limit_reached"] += 1     # a flush that had to leave messages for the next batch
            assoc.send_message_from_queue = counting_flush
            submitted = {}          # marker -> bytes
            per_sub = []
            seq = 0
            plans = []
            for sidx in range(case["submitters"]):
                mine = []
                for j in range(case["per"]):
                    seq += 1
                    size = rng.choice([0, 0, 5, 100, 1000]) if not case.get("big") else rng.choice([20000, 70000, 70000, 300000] if case.get("huge") else [20000, 70000, 70000])
                    lm = N.app_request(seq, size=size, host=N.LOCAL[0], realm=N.LOCAL[1], dest_realm=N.PEER[1]) if rng.random() < 0.7 \
                        else N.app_answer(seq, size=size, host=N.LOCAL[0], realm=N.LOCAL[1])
                    enc = R.encode(lm)
                    obj = DiameterMessage.load(enc)[0]
                    submitted[seq] = enc
                    mine.append((seq, obj))
                    if case.get("repeats") and rng.random() < 0.4:
                        # the application submits the same message again (a retransmission: the same object, or an equal copy):
                        # every submission is written, as many times as it was submitted
                        for _ in range(rng.choice([1, 1, 2])):
                            mine.append((seq, obj if rng.random() < 0.5 else DiameterMessage.load(enc)[0]))
                            acc.counters["messages_submitted_again"] += 1
                per_sub.append([m[0] for m in mine])
                plans.append(mine)
            # the step budget follows the work the write script imposes (one selector round per accepted fragment)
            total = sum(len(v) for v in submitted.values())
            frag = {"fixed1": 1, "fixed7": 7, "fixed50": 50}.get(case["write"], 64)
            sc.sched.max_steps = max(sc.sched.max_steps, sc.sched.steps + 300_000 + 150 * (total // frag))
            done = []

            def submitter(mine, batch, late=False):
                if late:
                    # the last submitter waits until the library thread of this case stands parked: its messages are then
                    # queued and handed over while that thread is in the middle of whatever line k belongs to
                    sc.sched.block_until(lambda: bool(sc.sched.parked_at), 0.5, "late-submitter")
                    if os.environ.get("C05_DEBUG"):
                        print("DEBUG late submitter wakes at", sc.sched.now, "steps", sc.sched.steps, "parked_at", sc.sched.parked_at, [(t.name, t.why) for t in sc.sched.tasks])
                if batch:
                    sc.node.send_messages([o for _, o in mine])
                else:
                    for _, o in mine:
                        sc.node.send_message(o)
                done.append(1)
            if case.get("park_worker") is not None:
                # park sweep of the library's own threads: the transport thread (or the state-machine thread) stands at its k-th
                # source line while the submitters and the other thread go on (hand-over of the next stream, partial writes)
                who, k = case["park_worker"]
                who = who if who != "psm" else ("client_psm_thread" if case["role"] == "client" else "server_psm_thread")
                only_write = who == "transport-write"       # a finer sweep: only the lines of write() itself are counted
                who = "transport_layer_thread" if only_write else who
                funcs = {"write"} if only_write else {"write", "_write", "read", "_read", "_set_selector_events_mask"} if who == "transport_layer_thread" else \
                        {"send_message_from_queue", "send_message", "event_send_message", "_set_selector_events_mask", "has_send_queue_message"}
                # only the lines of the functions that move the outgoing stream are counted, so that k sweeps the hand-over itself
                # (the threads execute thousands of other lines in between)
                sc.sched.parks.append({"task": who, "nth": k, "funcs": funcs, "timeout": 0.02,
                                       "release": lambda: len(done) >= len(plans) and assoc._send_messages.empty()})
            if case.get("park") is not None:
                # park sweep (DESIGN 2.5b): submitter0 is descheduled at its n-th source line inside the library until the other
                # submitters have returned and the send queue is empty (or half a virtual second has passed)
                sc.sched.parks.append({"task": "submitter0", "nth": case["park"], "timeout": 0.5,
                                       "release": lambda: len(done) >= len(plans) - 1 and assoc._send_messages.empty()})
            for sidx, mine in enumerate(plans):
                sc.sched.spawn("submitter%d" % sidx, submitter, mine, case.get("batch", False) and sidx % 2 == 0,
                               bool(case.get("park_worker")) and sidx == len(plans) - 1)
            inbound_sent = []
            if case["inbound"]:
                for k in range(case["inbound"]):
                    if rng.random() < 0.5:
                        m = N.dwr(hbh=5000 + k, e2e=6000 + k)
                    else:
                        m = N.app_answer(9000 + k)
                    inbound_sent.append(m)
                    sc.inject(R.encode(m))
                    sc.sched.run_until(lambda: False, rng.choice([0.0002, 0.001, 0.003]), "inbound-gap")
            t_submit = sc.sched.now
            sc.sched.run_until(lambda: len(done) == len(plans), 8.0, "submitters")
            quiet = sc.quiesce(timeout=8.0)
            acc.counters["executions"] += 1
            if sc.sched.parked_at and case.get("park_worker"):
                acc.counters["library_thread_parked_while_messages_are_submitted"] += 1
                acc.extra.setdefault("parked_at", {})
                kk = "%s@%s" % sc.sched.parked_at[0]
                acc.extra["parked_at"][kk] = acc.extra["parked_at"].get(kk, 0) + 1
            elif sc.sched.parked_at:
                acc.counters["submitter_parked_while_others_write"] += 1
                acc.extra.setdefault("parked_at", {})
                acc.extra["parked_at"][sc.sched.parked_at[0][1]] = acc.extra["parked_at"].get(sc.sched.parked_at[0][1], 0) + 1
            sc._pull()
            written = bytes(sc.emitted_buf)
            frames, residue = R.split_messages(written)
            seen = []
            base = []
            garbled = 0
            for f in frames:
                try:
                    lm = R.decode(f)[0]
                except R.Malformed:
                    garbled += 1
                    continue
                mk = N.marker_of(lm)
                if mk is not None and mk in submitted:
                    seen.append((mk, f))
                elif lm.code in N.BASE_CODES:
                    base.append(N.name_of(lm))
                else:
                    garbled += 1
            a = sc.node._association
            queued = a._send_messages.qsize() if a is not None else 0
            wit.update({"written_len": len(written), "submitted_len": sum(len(v) for v in submitted.values()),
                        "seen_markers": [s[0] for s in seen][:80], "per_submitter": per_sub, "base_messages": base[:20],
                        "residue_len": len(residue), "garbled_frames": garbled, "queued_at_end": queued, "quiescent": quiet,
                        "send_log_tail": sc.node_sock.send_log[-12:], "deaths": sc.sched.deaths, "schedule": sc.sched.schedule_hash(),
                        "choices": sc.sched.choices[:3000], "state": sc.state(), "partial_sends": sc.net.partial_sends})
            markers = [s[0] for s in seen]
            if os.environ.get("C05_DEBUG"):
                print("DEBUG", {k: wit[k] for k in ("seen_markers", "send_log_tail", "quiescent", "base_messages")}, "now", sc.sched.now, "t_submit", t_submit)
            if sc.sched.deaths:
                d = sc.sched.deaths[0]
                acc.violation("task-died:%s:%s" % (d["task"], d["type"]), "task %s died with %s: %s" % (d["task"], d["exc"], d["traceback"][-300:]), wit)
            elif len(done) != len(plans):
                acc.violation("submitter-never-returned", "a send_message call did not return within 30 virtual seconds", dict(wit, blocked=sc.sched.blocked_report()))
            elif residue or garbled:
                acc.violation("outbound-torn-or-interleaved", "%d undecodable frame(s) and %d residue bytes on the wire (write script %s)" % (
                    garbled, len(residue), case["write"]), wit)
            else:
                import collections
                expected_n = collections.Counter(m for mine in per_sub for m in mine)
                dup = sorted({m for m in markers if markers.count(m) > expected_n[m]})
                missing = sorted(m for m in submitted if markers.count(m) < expected_n[m])
                if dup:
                    key = "outbound-duplicated"
                    if case["write"] != "full":
                        key = "outbound-duplicated-on-partial-write"
                    acc.violation(key, "messages %s written more than once: %d bytes written for %d submitted (write script %s, inbound %s)" % (
                        dup[:10], len(written), wit["submitted_len"], case["write"], case["inbound"]), wit)
                elif missing and queued == 0:
                    key = "outbound-lost"
                    if case["inbound"] or case.get("inbound_on_partial"):
                        key = "outbound-lost-with-inbound-traffic"
                    acc.violation(key, "messages %s never written although nothing is queued (write script %s, inbound %s)" % (
                        missing[:10], case["write"], case["inbound"]), wit)
                elif missing:
                    acc.violation("outbound-stuck-in-queue", "%d message(s) still queued at quiescence" % queued, wit)
                else:
                    if any(f != submitted[mk] for mk, f in seen):
                        acc.violation("outbound-not-byte-identical", "a written message differs from dump() of the submitted one", wit)
                    for mine in per_sub:
                        order = [m for m in markers if m in set(mine)]
                        if order != mine:
                            acc.violation("outbound-reordered", "submitter order %s, written %s" % (mine[:10], order[:10]), wit)
                            break
                    else:
                        acc.counters["messages_written_ok"] += len(markers)
        except vsched.DeadlockError as ex:
            acc.violation("deadlock", "deadlock: %s" % ex, dict(wit, stacks=sc.sched.stacks()))
        except vsched.WallClock as ex:
            acc.inconclusive.append("%s (case %r)" % (ex, case))
        except vsched.StepBudget as ex:
            if "t_submit" in dir() and sc.sched.now - t_submit > 2.0:
                acc.violation("outbound-never-settles", "%.1f virtual s after submission the node is still busy (step budget reached): %s" % (
                    sc.sched.now - t_submit, sc.sched.blocked_report()), dict(wit, schedule=sc.sched.schedule_hash()))
            else:
                acc.inconclusive.append("step budget exhausted: %s (case %r)" % (ex, case))
        cov = sc.coverage()
    acc.evaluations += 1
    acc.sigs.add(harness.sig_hash("%s/%s/%s/%s" % (case["write"], bool(case["inbound"]), case["submitters"], cov["schedule"])))
    for k in ("steps", "switches", "line_events", "partial_sends"):
        acc.counters[k] += cov[k]
    acc.sample({"case": case}, limit=3)


def execute_restart(acc, case):
    """The same node object over two connections: what is written on the second one is what was submitted on the second one.
    Connection 1 ends (local close with the DPA held back, or the peer leaves) with a message handed in at the last moment -
    accepted or refused, it belongs to connection 1; after start() the stream of connection 2 must consist of the CER, the
    messages submitted after the restart (each once, in order) and whole base messages - nothing of connection 1."""
    from bromelia.base import DiameterMessage
    rng = random.Random(case["seed"])
    sc = N.Scenario(seed=case["seed"], strategy=case["strategy"], p=case.get("p", 0.05), role="client", apps=[16777251],
                    lines=case["strategy"] != "rr", max_steps=1_500_000, watchdog=10 ** 6)
    wit = {"case": case}

    def mk(seq):
        return DiameterMessage.load(R.encode(N.app_request(seq, size=rng.choice([0, 5, 100]), host=N.LOCAL[0], realm=N.LOCAL[1], dest_realm=N.PEER[1])))[0]
    with sc:
        try:
            if not sc.open():
                acc.inconclusive.append("node did not reach Open in the set-up phase (case %r)" % (case,))
                return
            sc.read_emitted()
            first = list(range(1, 1 + case["n1"]))
            for q in first:
                sc.node.send_message(mk(q))
            sc.sched.run_until(lambda: sc._have_emitted(len(first)), 5.0, "first-connection-traffic")
            sc.read_emitted()
            late = 50
            late_outcome = "not-tried"
            if case["end"] == "local-close":
                sc.node.close()
                sc.sched.run_until(lambda: sc._have_emitted(1), 5.0, "dpr")
                dprs = [m for m in sc.read_emitted() if N.name_of(m) == "DPR"]
                try:
                    sc.node.send_message(mk(late))
                    late_outcome = "accepted"
                except BaseException as ex:
                    late_outcome = "refused:%s" % type(ex).__name__
                sc.sched.run_until(lambda: False, rng.choice([0.0, 0.001, 0.01]), "late-gap")
                if dprs:
                    sc.inject(R.encode(N.dpa(hbh=dprs[0].hbh, e2e=dprs[0].e2e)))
            else:
                # the peer leaves; the application hands in one more message before it has noticed
                sc.peer_sock.close()
                try:
                    sc.node.send_message(mk(late))
                    late_outcome = "accepted"
                except BaseException as ex:
                    late_outcome = "refused:%s" % type(ex).__name__
            acc.observe("message-handed-in-while-the-connection-ends:%s:%s" % (case["end"], late_outcome))
            if not sc.sched.run_until(lambda: sc.state() == "Closed" and not [t for t in sc.sched.live_tasks() if t.name != "starter"], 40.0, "closed"):
                acc.inconclusive.append("first connection did not end (case %r): %s" % (case, sc.sched.blocked_report()))
                return
            # ---- connection 2 on the same object
            sc.sched.run_until(lambda: False, 0.05, "between-connections")
            sc.peer_sock = sc.node_sock = None
            sc.emitted_buf = bytearray()
            sc.start_node()
            if not sc.connect_transport():
                acc.inconclusive.append("restart: transport set-up failed (case %r)" % (case,))
                return
            sc.sched.run_until(lambda: sc._have_emitted(1), 10.0, "second-cer")
            sc._pull()
            frames, _ = R.split_messages(bytes(sc.emitted_buf))
            cer = None
            for f in frames:
                try:
                    m = R.decode(f)[0]
                except R.Malformed:
                    continue
                if N.name_of(m) == "CER":
                    cer = m
                    break
            if cer is None:
                acc.violation("restart-no-cer", "the restarted node wrote %d frames and no CER" % len(frames), wit)
                return
            sc.inject(R.encode(N.cea(hbh=cer.hbh, e2e=cer.e2e, apps=sc.apps)))
            if not sc.sched.run_until(lambda: sc.node.is_open(), 20.0, "second-open"):
                acc.violation("restart-does-not-open", "second connection of the same object does not reach Open: %s" % sc.sched.blocked_report(), wit)
                return
            second = list(range(100, 100 + case["n2"]))
            for q in second:
                sc.node.send_message(mk(q))
            sc.quiesce(timeout=8.0)
            sc._pull()
            frames, residue = R.split_messages(bytes(sc.emitted_buf))
            seen, names = [], []
            for f in frames:
                try:
                    m = R.decode(f)[0]
                except R.Malformed:
                    names.append("garbled")
                    continue
                mk_ = N.marker_of(m)
                names.append(N.name_of(m) if mk_ is None else "app%d" % mk_)
                if mk_ is not None:
                    seen.append(mk_)
            wit.update({"second_connection_stream": names[:40], "late": late_outcome, "first": first, "second": second})
            acc.counters["executions"] += 1
            acc.counters["restart_executions"] += 1
            stale = [q for q in seen if q not in second]
            if stale or "garbled" in names or residue:
                acc.violation("outbound-of-an-earlier-connection-written-after-restart", "the second connection carried %s (submitted on it: %s; message handed in while the first ended: %d, %s)" % (
                    names[:12], second, late, late_outcome), wit)
            elif seen != second:
                acc.violation("outbound-lost" if len(seen) < len(second) else "outbound-duplicated", "second connection: submitted %s, written %s" % (second, seen), wit)
            elif names[:1] != ["CER"]:
                acc.violation("outbound-before-the-capabilities-exchange", "the second connection's stream starts with %s" % names[:3], wit)
            else:
                acc.counters["messages_written_ok"] += len(seen)
        except vsched.DeadlockError as ex:
            acc.violation("deadlock", "deadlock: %s" % ex, dict(wit, stacks=sc.sched.stacks()))
        except vsched.WallClock as ex:
            acc.inconclusive.append("%s (case %r)" % (ex, case))
        except vsched.StepBudget as ex:
            acc.inconclusive.append("step budget exhausted: %s (case %r)" % (ex, case))
        cov = sc.coverage()
    acc.evaluations += 1
    acc.sigs.add(harness.sig_hash("restart/%s/%s/%s" % (case["end"], case["n1"], cov["schedule"])))
    for k in ("steps", "switches", "line_events", "partial_sends"):
        acc.counters[k] += cov[k]


def run_batch(b):
    acc = harness.Acc()
    if b.get("real"):
        # real threads, real kernel sockets on 127.0.0.1, nothing substituted (bvm/realnet.py)
        from bvm import realnet
        realnet.run_cases(acc, b["real"])
        return acc
    for case in b["cases"]:
        if case.get("twin"):
            from bvm import twin
            twin.twin_outbound(acc, case)
        elif case.get("restart"):
            execute_restart(acc, case)
        else:
            execute(acc, case)
    return acc


def plan(tier, seed):
    q = tier == "quick"
    rng = random.Random(seed)
    cases = []
    writes = ["full", "fixed1", "fixed7", "fixed50", "fixed4096", "random", "zero-window"]
    n = 150 if q else 16000
    for i in range(n):
        cases.append({"seed": seed * 100019 + i, "submitters": rng.choice([1, 1, 2, 3, 4]), "per": rng.choice([1, 2, 3, 5, 10, 30]) if not q else rng.choice([1, 2, 3, 5]),
                      "write": rng.choice(writes), "inbound": rng.choice([0, 0, 2, 5]), "strategy": rng.choice(["rr", "rw", "rw"]),
                      "p": rng.choice([0.02, 0.1, 0.3]), "role": rng.choice(["client", "server"]), "batch": rng.random() < 0.3,
                      "transport": rng.choice(["TCP", "TCP", "TCP", "SCTP"]), "watchdog": (30, 10 ** 6)[i % 2], "repeats": i % 3 == 0})
    for i in range(60 if q else 6000):
        # inbound application answers timed to land right after a partial write
        cases.append({"seed": seed * 9973 + i, "submitters": rng.choice([1, 2, 3]), "per": rng.choice([1, 2, 3, 5]),
                      "write": rng.choice(["fixed1", "fixed7", "fixed50", "random", "zero-window"]), "inbound": 0,
                      "inbound_on_partial": rng.choice([1, 2, 4, 50]), "strategy": rng.choice(["rr", "rw"]), "p": rng.choice([0.02, 0.1]),
                      "role": rng.choice(["client", "server"]), "batch": rng.random() < 0.3, "transport": rng.choice(["TCP", "TCP", "SCTP"])})
    for nth in range(0, 64 if q else 150):
        for w in (["fixed50"] if q else ["full", "fixed7", "zero-window"]):
            cases.append({"seed": seed * 53 + nth, "submitters": 2, "per": 2, "write": w, "inbound": 0, "strategy": "rw", "p": 0.02,
                          "role": ("client", "server")[nth % 2], "batch": nth % 4 == 3, "park": nth, "watchdog": 10 ** 6})
    for who, span in (("transport_layer_thread", 90), ("psm", 90), ("transport-write", 45)):
        for k in range(0, span, 1):
            for w in ((["full", "fixed50"] if k < 50 or who == "transport-write" else ["fixed50"]) if q else ["full", "fixed7", "fixed50", "zero-window"]):
                cases.append({"seed": seed * 59 + k, "submitters": 2, "per": 3, "write": w, "inbound": 2 if k % 3 == 0 and who != "transport-write" else 0, "strategy": "rw", "p": 0.02,
                              "role": ("client", "server")[k % 2], "batch": k % 4 == 1, "park_worker": [who, k],
                              # no watchdog request comes to the rescue of bytes that were handed over and then forgotten
                              "watchdog": 10 ** 6})
    for i in range(16 if q else 300):
        # a second node object in the same process submits its own messages on its own connection (bvm/twin.py)
        cases.append({"twin": True, "seed": seed * 2741 + i, "strategy": ("rr", "rw")[i % 2], "p": rng.choice([0.02, 0.1]), "submitters": rng.choice([1, 2, 3]),
                      "per": rng.choice([1, 3, 8]), "frag": rng.choice([None, [1, 7, 50], [50, 4096]]), "batch": i % 3 == 0})
    for i in range(24 if q else 600):
        # the same node object over two connections (a message handed in while the first one ends)
        cases.append({"restart": True, "seed": seed * 4001 + i, "end": ("local-close", "peer-disconnect")[i % 2], "n1": rng.choice([1, 3]), "n2": rng.choice([1, 2, 5]),
                      "strategy": ("rr", "rw")[(i // 2) % 2], "p": rng.choice([0.02, 0.1])})
    for i in range(6 if q else 60):
        # aggregate above the 256 KiB batching limit, handed over in one send_messages() call
        cases.append({"seed": seed * 733 + i, "submitters": rng.choice([1, 2]), "per": 8, "big": True, "batch": True,
                      "write": rng.choice(["full", "fixed4096", "random"]), "inbound": 0, "strategy": rng.choice(["rr", "rw"]), "p": 0.05, "role": "client"})
    for i in range(4 if q else 40):
        # single messages longer than the 256 KiB batching limit, alone and among others, one by one and in one call
        cases.append({"seed": seed * 739 + i, "submitters": rng.choice([1, 2]), "per": rng.choice([1, 3, 5]), "big": True, "huge": True, "batch": i % 2 == 0,
                      "write": rng.choice(["full", "full", "random"]), "inbound": 0, "strategy": "rr", "p": 0.05, "role": ("client", "server")[i % 2],
                      "max_steps": 2_000_000})
    return cases


def main(tier, seed):
    t0 = time.time()
    cases = plan(tier, seed)
    nb = 16 if tier == "quick" else 64
    batches = [{"cases": cases[i::nb]} for i in range(nb)]
    nreal, per = (4, 1) if tier == "quick" else (16, 6)
    for i in range(nreal):
        batches.append({"real": [{"kind": "outbound", "seed": seed * 7919 + i * 101 + j, "role": ("client", "server")[(i + j) % 2]} for j in range(per)]})
    acc = harness.run_workers("checks.c05_outbound", "run_batch", batches, 3000)
    harness.require_vnet_fidelity(acc)
    return harness.finish(PROP, tier, seed, "exploration", acc, RULE,
                          ["node-originated CER/CEA/DWR/DWA/DPR/DPA are legal in the outbound stream when they appear whole at message boundaries",
                           "vnet models Linux TCP send(): accepts a prefix or raises BlockingIOError",
                           "quiescence = all queues and buffers empty and two state-machine ticks without change"],
                          t0, require_counters=("executions", "steps", "partial_sends", "batch_limit_reached", "inbound_injected_on_partial_write", "messages_submitted_again", "restart_executions", "real_loopback_ok", "submitter_parked_while_others_write", "library_thread_parked_while_messages_are_submitted", "twin_node_executions"))


def replay(w):
    acc = harness.Acc()
    if w["witness"]["case"].get("twin"):
        from bvm import twin
        twin.twin_outbound(acc, w["witness"]["case"])
    else:
        execute(acc, w["witness"]["case"])
    for v in acc.violations:
        print("VIOLATION property=C05 replay=<this>", v["key"], v["what"][:300])
    return 1 if acc.violations else 0
