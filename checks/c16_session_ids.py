"""C16 - generated Session-Ids are unique for the life of the process and well-formed.

Uniqueness + grammar monitor over generation histories; the library's clock is a settable shim so that
'many per clock second' and clock steps are explicit parts of the history."""
import datetime as _dt
import itertools
import random
import re
import time
import types

from bvm import harness

PROP = "C16"
RULE = ("histories over 2..5 identities of {create Session-Id AVP, create Acct-Multi-Session-Id AVP, create typed message "
        "from identity, bulk origin update to same/other identity - alone or together with a Session-Id given as bytes or as an identity -, advance clock by 0.3/1/5 s, Session-Id from bytes}; "
        "exhaustive to length L (4 quick, 5 thorough) over a 14-operation alphabet with 2 identities and up to three live messages, random to length 400/2000, a quarter of them in another clock era (2036 rollover, 2040, 2106) and/or after 2^16, 2^31, 2^32 ids; oracle: set "
        "membership over every id issued in the history + RFC 6733 8.8 grammar; distinct = distinct op sequences")

IDS = ["hss.epc.example.org", "mme01.epc.example.org", "a", "x.y", "pgw.node-7.example.com"]
OPS = ["sid0", "sid1", "msg0", "upd0", "upd1", "t0.3", "t1", "acct0", "new0", "new1", "nxt0", "nxt1", "raw0", "t5"]
# msgN: typed message created from identity N (becomes the current message)   newN: generic message created from identity N
# (kept, up to three are alive)   updN: bulk origin update of the current message to identity N   nxtN: the same on the
# oldest kept message (so that several messages created in an earlier second are re-originated later)
# rawN: a message whose Session-Id was supplied as bytes (foreign high/low fields) is re-originated to identity N


class Clock:
    def __init__(self):
        self.t = _dt.datetime(2024, 5, 17, 12, 0, 0)


def install_clock():
    import bromelia._internal_utils as IU
    clock = Clock()

    class FakeDatetime(_dt.datetime):
        @classmethod
        def utcnow(cls):
            return clock.t

        @classmethod
        def now(cls, tz=None):
            return clock.t
    IU.datetime = types.SimpleNamespace(datetime=FakeDatetime, timedelta=_dt.timedelta)
    return clock


class History:
    def __init__(self, acc, clock, start=None, uptime=0):
        from bromelia._internal_utils import SessionHandler
        self.acc = acc
        self.clock = clock
        self.start, self.uptime = start, uptime
        clock.t = _dt.datetime(*start) if start else _dt.datetime(2024, 5, 17, 12, 0, 0)
        SessionHandler.reset()          # fresh "process"
        if uptime:
            # a process that has already issued `uptime` ids: the only way to reach the 2^16-th / 2^32-th id of a history
            SessionHandler.id = uptime
            acc.counters["long_uptime_histories"] += 1
        if start:
            acc.counters["other_clock_era_histories"] += 1
        self.issued = {}
        self.msg = None
        self.kept = []
        self.trace = []

    def record(self, sid_bytes, identity, how):
        acc = self.acc
        acc.counters["ids_generated"] += 1
        try:
            s = sid_bytes.decode("utf-8")
        except Exception:
            acc.violation("session-id-not-utf8", "%r" % (sid_bytes,), {"trace": self.trace})
            return
        m = re.fullmatch(re.escape(identity) + r";(\d+);(\d+)(;.*)?", s)
        wit = {"trace": list(self.trace), "id": s, "start": self.start, "uptime": self.uptime}
        if not m:
            acc.violation("session-id-malformed", "generated %r for identity %r (%s)" % (s, identity, how), wit)
        elif int(m.group(1)) >= 2 ** 32:
            acc.violation("session-id-malformed:high-exceeds-32-bits", "generated %r for identity %r (%s; clock %s)" % (s, identity, how, self.clock.t), wit)
        elif int(m.group(2)) >= 2 ** 32:
            acc.violation("session-id-malformed:low-exceeds-32-bits", "generated %r for identity %r (%s; %d ids issued before this history)" % (
                s, identity, how, self.uptime), wit)
        if s in self.issued:
            prev = self.issued[s]
            key = "session-id-reused"
            if "upd" in how or "upd" in prev:
                key = "session-id-reused-after-identity-switch"
            acc.violation(key, "Session-Id %r issued twice: first by step %s, again by step %s" % (s, prev, how),
                          wit)
        self.issued[s] = how

    def _bulk(self, m, d):
        # both modes of the bulk update: the default one silences unknown keys, the strict one (silent_errors=False) refuses
        # them - every key used here exists in the message, so the two must do the same
        self.bulk_calls = getattr(self, "bulk_calls", 0) + 1
        if self.bulk_calls % 2:
            m.update_avps(d)
        else:
            m.update_avps(d, silent_errors=False)
            self.acc.counters["strict_bulk_updates"] += 1

    def step(self, op):
        from bromelia.avps import SessionIdAVP, AcctMultiSessionIdAVP, OriginHostAVP, OriginRealmAVP
        from bromelia.base import DiameterMessage, DiameterHeader
        self.trace.append(op)
        n = len(self.trace)
        how = "%d:%s" % (n, op)
        if op.startswith("t"):
            self.clock.t += _dt.timedelta(seconds=float(op[1:]))
            return
        if op.startswith("jump"):
            # a long stretch of the process's life is skipped: ids issued before it stay in the record, the counter stands
            # where 2^16 / 2^31 / 2^32 generations would have brought it (the carry into the high field happens in between)
            from bromelia._internal_utils import SessionHandler
            target = {"jump16": 2 ** 16 - 3, "jump31": 2 ** 31 - 3, "jump32": 2 ** 32 - 3}[op]
            if SessionHandler.id < target:
                SessionHandler.id = target
                self.acc.counters["long_uptime_histories"] += 1
            return
        ident = IDS[int(op[-1])]
        if op.startswith("sid"):
            self.record(SessionIdAVP(ident).data, ident, how)
        elif op.startswith("acct"):
            self.record(AcctMultiSessionIdAVP(ident).data, ident, how)
        elif op.startswith("msg"):
            from bromelia.lib.etsi_3gpp_s6a import AIR
            m = AIR(session_id=ident, origin_host=ident, origin_realm="example.org", destination_realm="example.org",
                    user_name="001010000000001", visited_plmn_id=b"\x00\xf1\x10")
            self.record(m.session_id_avp.data, ident, how)
            self.msg = m
        elif op.startswith("new"):
            m = DiameterMessage(DiameterHeader(command_code=316, application_id=16777251))
            m.append(SessionIdAVP(ident))
            self.record(m.session_id_avp.data, ident, how)
            m.append(OriginHostAVP(ident))
            m.append(OriginRealmAVP("example.org"))
            self.kept.append(m)
            del self.kept[:-3]
            self.msg = m
        elif op.startswith("nxt") or op.startswith("raw"):
            if op.startswith("raw"):
                m = DiameterMessage(DiameterHeader(command_code=316, application_id=16777251))
                m.append(SessionIdAVP(b"peer.remote.example;1559529822;7"))
                m.append(OriginHostAVP("peer.remote.example"))
            elif self.kept:
                m = self.kept.pop(0)
            else:
                return
            self._bulk(m, {"origin_host": ident})
            self.record(m.session_id_avp.data, ident, how)
            self.acc.counters["bulk_updates"] += 1
        elif op.startswith("shr"):
            # the application keeps one dict of new origin values and applies it to message after message
            if not hasattr(self, "shared"):
                self.shared = {}
            d = self.shared.setdefault(ident, {"origin_host": ident, "origin_realm": "example.org"})
            before = dict(d)
            m = DiameterMessage(DiameterHeader(command_code=316, application_id=16777251))
            m.append(SessionIdAVP(IDS[0]))
            self.record(m.session_id_avp.data, IDS[0], how + "(create)")
            m.append(OriginHostAVP(IDS[0]))
            m.append(OriginRealmAVP("example.org"))
            self._bulk(m, d)
            self.record(m.session_id_avp.data, ident, how)
            self.acc.counters["bulk_updates"] += 1
            self.acc.counters["shared_dict_updates"] += 1
            if d != before:
                self.acc.observe("update_avps-changes-the-callers-dict")
        elif op.startswith("both"):
            # a bulk update that names the Session-Id as well: supplied bytes are carried unchanged, a supplied identity string
            # is what the new id is generated from - the Origin-Host given alongside has no say
            m = DiameterMessage(DiameterHeader(command_code=316, application_id=16777251))
            m.append(SessionIdAVP(IDS[0]))
            self.record(m.session_id_avp.data, IDS[0], how + "(create)")
            m.append(OriginHostAVP(IDS[0]))
            m.append(OriginRealmAVP("example.org"))
            other = IDS[(int(op[-1]) + 1) % len(IDS)]
            if n % 2:
                supplied = b"peer.remote.example;1559529822;%d" % n
                self._bulk(m, {"session_id": supplied, "origin_host": other} if n % 4 == 1 else {"origin_host": other, "session_id": supplied})
                got = m.session_id_avp.data
                self.acc.counters["bytes_passthrough"] += 1
                if got != supplied:
                    self.acc.violation("session-id-bytes-altered", "update_avps(session_id=%r, origin_host=%r) left Session-Id %r" % (supplied, other, got),
                                       {"trace": list(self.trace), "start": self.start, "uptime": self.uptime})
            else:
                self._bulk(m, {"session_id": ident, "origin_host": other})
                self.record(m.session_id_avp.data, ident, how)
            self.acc.counters["bulk_updates"] += 1
        elif op.startswith("upd"):
            if self.msg is None:
                m = DiameterMessage(DiameterHeader(command_code=316, application_id=16777251))
                m.append(SessionIdAVP(IDS[0]))
                self.record(m.session_id_avp.data, IDS[0], how + "(create)")
                m.append(OriginHostAVP(IDS[0]))
                m.append(OriginRealmAVP("example.org"))
                self.msg = m
            self._bulk(self.msg, {"origin_host": ident})
            sid = [a for a in self.msg.avps if a.get_code() == 263][0].data
            if self.msg.session_id_avp.data != sid:
                self.acc.observe("named-view-and-list-disagree-after-update_avps")
            self.record(self.msg.session_id_avp.data, ident, how)
            self.acc.counters["bulk_updates"] += 1


def bytes_passthrough(acc, rng):
    from bromelia.avps import SessionIdAVP, AcctMultiSessionIdAVP
    for _ in range(200):
        b = bytes(rng.randrange(256) for _ in range(rng.randrange(1, 60)))
        for cls in (SessionIdAVP, AcctMultiSessionIdAVP):
            acc.evaluations += 1
            acc.counters["bytes_passthrough"] += 1
            try:
                d = cls(b).data
            except BaseException as ex:
                acc.violation("session-id-bytes-rejected", "%s(%r) raised %r" % (cls.__name__, b, ex), {"bytes": b.hex()})
                continue
            if d != b:
                acc.violation("session-id-bytes-altered", "%s(%r).data = %r" % (cls.__name__, b, d), {"bytes": b.hex()})


def run_batch(b):
    acc = harness.Acc()
    clock = install_clock()
    rng = random.Random(b["seed"])
    if b["kind"] == "exhaustive":
        L = b["L"]
        for first in b["first"]:
            first = tuple(first) if isinstance(first, (list, tuple)) else (first,)
            for rest in itertools.product(OPS, repeat=L - len(first)):
                seq = first + rest
                h = History(acc, clock)
                for op in seq:
                    h.step(op)
                acc.evaluations += 1
        acc.extra["distinct_sequences"] = acc.evaluations
        acc.sample({"exhaustive_length": L, "first_ops": b["first"], "example": list(seq)})
    else:
        ops = OPS + ["sid2", "sid3", "upd2", "upd3", "upd4", "msg1", "msg2", "acct1", "t5", "t0.3", "new2", "nxt2", "nxt3", "raw1", "raw2", "both0", "both1", "both3", "jump16", "jump31", "jump32", "jump32", "shr1", "shr1", "shr2", "shr3"]
        for k in range(b["n"]):
            # every fourth history runs in another clock era (NTP seconds roll over on 2036-02-07 06:28:16) and/or
            # in a process that has been up for a long time
            start = rng.choice([None, (2036, 2, 7, 6, 28, 10), (2040, 1, 1, 0, 0, 0), (2106, 3, 1, 0, 0, 0)]) if k % 4 == 1 else None
            uptime = rng.choice([0, 2 ** 16 - 3, 2 ** 31 - 3, 2 ** 32 - 4]) if k % 4 in (1, 2) else 0
            h = History(acc, clock, start, uptime)
            L = rng.randrange(2, b["maxlen"])
            for _ in range(L):
                h.step(rng.choice(ops))
            acc.evaluations += 1
            acc.sigs.add(harness.sig_hash(",".join(h.trace)))
        acc.sample({"random_history": h.trace[:20]})
        bytes_passthrough(acc, rng)
    return acc


def main(tier, seed):
    t0 = time.time()
    q = tier == "quick"
    L = 4 if q else 5
    if q:
        batches = [{"kind": "exhaustive", "L": L, "first": [op], "seed": seed} for op in OPS]
    else:
        batches = [{"kind": "exhaustive", "L": L, "first": [[a, b]], "seed": seed} for a in OPS for b in OPS]
    for i in range(8 if q else 24):
        batches.append({"kind": "random", "n": 150 if q else 120, "maxlen": 400 if q else 2000, "seed": seed * 991 + i})
    acc = harness.run_workers("checks.c16_session_ids", "run_batch", batches, 1500)
    d = acc.extra.pop("distinct_sequences", 0) + len(acc.sigs)
    return harness.finish(PROP, tier, seed, "exploration", acc, RULE,
                          ["the library clock (bromelia._internal_utils.datetime) is replaced by a settable shim",
                           "each history starts from SessionHandler.reset() and a fresh id set (a fresh process)",
                           "a process that has already issued 2^16-3 / 2^31-3 / 2^32-4 ids is produced by presetting SessionHandler.id right after "
                           "reset(): 4*10^9 real generations are out of reach; clock eras after the NTP rollover of 2036 come from the clock shim",
                           "single-threaded histories: concurrent generation is not part of the statement's quantifier"],
                          t0, extra_cov={"distinct_nontrivial": d, "exhaustive_length": L},
                          exhaustive=True, require_counters=("ids_generated", "bulk_updates", "bytes_passthrough", "long_uptime_histories", "other_clock_era_histories", "shared_dict_updates"))


def replay(w):
    acc = harness.Acc()
    clock = install_clock()
    h = History(acc, clock, w["witness"].get("start"), w["witness"].get("uptime", 0))
    for op in w["witness"]["trace"]:
        h.step(op)
    for v in acc.violations:
        print("VIOLATION property=C16 replay=<this>", v["what"])
    return 1 if acc.violations else 0
