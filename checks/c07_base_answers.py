"""C07 - base-protocol answers echo the identifiers of the request they answer.

Request/answer matcher over the stream a real node emits (decoded by the reference decoder), under the
deterministic scheduler; also across reconnects of the same node object."""
import random
import time

from bvm import harness, node as N, refcodec as R, scen, vsched

PROP = "C07"
RULE = ("sequences of base requests (CER while listening / in Open, DWR, final DPR) with identifier pairs from boundary values "
        "(0, 1, 2^31, 2^32-1, equal hbh/e2e, repeated pairs) and random ones, back-to-back in one segment or across segments, "
        "interleaved with application traffic and with submitter tasks filling the send queue up to the 256 KiB batching "
        "limit, in both roles, across reconnects of the same node object; schedules: round robin and random walk with "
        "line-level preemption; oracle: pairing rule (same code, R clear, ids echoed, local origin, Result-Code, emitted "
        "before the next inbound message is processed); distinct = (role, sequence shape, id class, schedule hash)")

BOUNDARY = [0, 1, 2 ** 31, 2 ** 32 - 1, 2 ** 31 - 1, 0x01000000, 0x00ffffff]


def ids(rng, used):
    c = rng.random()
    if c < 0.3:
        h, e = rng.choice(BOUNDARY), rng.choice(BOUNDARY)
    elif c < 0.4:
        h = e = rng.choice(BOUNDARY + [rng.randrange(2 ** 32)])
    elif c < 0.5 and used:
        h, e = rng.choice(used)
    else:
        h, e = rng.randrange(2 ** 32), rng.randrange(2 ** 32)
    used.append((h, e))
    return h, e


def one_connection(acc, sc, rng, case, wit, round_no):
    """Open (or re-open) the connection, play requests, close with DPR. Returns False to stop."""
    used = []
    requests = []           # (name, hbh, e2e) in the order sent
    if sc.role == "server":
        if not sc.connect_transport():
            acc.inconclusive.append("transport set-up failed (%r)" % (case,))
            return False
        h, e = ids(rng, used)
        sc.inject(R.encode(N.cer(hbh=h, e2e=e, apps=sc.apps)))
        requests.append(("CEA", h, e))
    else:
        if not sc.connect_transport():
            acc.inconclusive.append("transport set-up failed (%r)" % (case,))
            return False
        if not sc.sched.run_until(lambda: sc._have_emitted(1), 20, "cer"):
            acc.inconclusive.append("no CER emitted (%r)" % (case,))
            return False
        m = sc.read_emitted()
        sc.emitted_msgs = []
        sc.inject(R.encode(N.cea(hbh=m[0].hbh, e2e=m[0].e2e, apps=sc.apps)))
    if not sc.sched.run_until(lambda: sc.node.is_open(), 20, "open"):
        acc.inconclusive.append("node did not open (%r)" % (case,))
        return False
    # traffic
    from bromelia.base import DiameterMessage
    if case.get("flood"):
        def flood():
            big = DiameterMessage.load(R.encode(N.app_request(777, size=60000, host=N.LOCAL[0], realm=N.LOCAL[1], dest_realm=N.PEER[1])))[0]
            for k in range(case["flood"]):
                sc.node.send_message(big)
        sc.sched.spawn("flooder%d" % round_no, flood)
    if case.get("backlog"):
        # a send queue backed up past several 256 KiB batches while the base requests arrive: the shared, long-lived
        # answer objects then stay queued across ticks
        big = DiameterMessage.load(R.encode(N.app_request(778, size=70000, host=N.LOCAL[0], realm=N.LOCAL[1], dest_realm=N.PEER[1])))[0]
        sc.node.send_messages([big] * case["backlog"])
        acc.counters["backlog_cases"] += 1
    if case.get("app_base_answers"):
        # the application hands base answers of its own making to the public send calls (a generic message decoded from bytes
        # or built from a header, the typed classes): they answer no received request, so none of them may reach the socket -
        # refused with a library error, or dropped
        def forger():
            from bromelia.base import DiameterHeader, DiameterAnswer
            from bromelia.avps import ResultCodeAVP, OriginHostAVP, OriginRealmAVP
            import bromelia.exceptions as E
            for k in range(case["app_base_answers"]):
                h, e = ids(rng, used)
                lm = (N.dwa, N.dpa, N.dwa, lambda **kw: N.cea(apps=sc.apps, **kw))[k % 4](host=N.LOCAL[0], realm=N.LOCAL[1], hbh=h, e2e=e)
                form = ("loaded", "header-built", "answer-class", "loaded")[(k // 4 + k) % 4]
                if form == "loaded":
                    obj = DiameterMessage.load(R.encode(lm))[0]
                else:
                    hdr = DiameterHeader(command_code=lm.code, application_id=0, hop_by_hop=h, end_to_end=e)
                    avps = [ResultCodeAVP(2001), OriginHostAVP(N.LOCAL[0]), OriginRealmAVP(N.LOCAL[1])]
                    obj = (DiameterMessage if form == "header-built" else DiameterAnswer)(header=hdr, avps=avps)
                call = ("send_message", "send_messages")[(k // 2) % 2]
                try:
                    if call == "send_message":
                        sc.node.send_message(obj)
                    else:
                        sc.node.send_messages([obj])
                    acc.observe("application-base-answer-accepted-by-%s:%s" % (call, form))
                except BaseException as ex:
                    if type(ex).__module__ == E.__name__:
                        acc.counters["application_base_answers_refused"] += 1
                    else:
                        acc.observe("application-base-answer-%s-raises-%s" % (call, type(ex).__name__))
                acc.counters["application_base_answers_submitted"] += 1
                sc.sched.run_until(lambda: False, rng.choice([0.0, 0.0005, 0.003]), "forger-gap")
        sc.sched.spawn("forger%d" % round_no, forger)
    n = case["n"]
    burst = b""
    for k in range(n):
        c = rng.random()
        if c < 0.65:
            h, e = ids(rng, used)
            data = R.encode(N.dwr(hbh=h, e2e=e))
            requests.append(("DWA", h, e))
        elif c < 0.8:
            h, e = ids(rng, used)
            data = R.encode(N.cer(hbh=h, e2e=e, apps=sc.apps))
            requests.append(("CEA", h, e))
        elif c < 0.9:
            data = R.encode(N.app_request(5000 + k, dest_realm=N.LOCAL[1]) if rng.random() < 0.5 else N.app_answer(6000 + k))
        else:
            # base *answers* from the peer (a late or stray DWA / CEA): whatever the node does with them, it must not answer them
            h, e = ids(rng, used)
            data = R.encode(N.dwa(hbh=h, e2e=e) if rng.random() < 0.7 else N.cea(hbh=h, e2e=e, apps=sc.apps))
            acc.counters["stray_base_answers_injected"] += 1
        if case["back_to_back"]:
            burst += data
        else:
            sc.inject(data, chunks=[rng.randrange(1, len(data))] if rng.random() < 0.3 else None)
            sc.sched.run_until(lambda: False, rng.choice([0.0, 0.0003, 0.002]), "gap")
    if burst:
        sc.inject(burst)
    h, e = ids(rng, used)
    sc.sched.run_until(lambda: not sc.node_sock.rx, 5, "burst-read")
    sc.inject(R.encode(N.dpr(hbh=h, e2e=e)))
    requests.append(("DPA", h, e))
    closed = sc.sched.run_until(lambda: sc.state() == "Closed" and not [t for t in sc.sched.live_tasks() if "flooder" not in t.name and "forger" not in t.name and t.name != "starter"], 40, "closed")
    sc._pull()
    # ---- matcher
    frames, residue = R.split_messages(bytes(sc.emitted_buf))
    sc.emitted_buf = bytearray()
    offsets, pos = [], 0
    answers = []
    for f in frames:
        pos += len(f)
        try:
            lm = R.decode(f)[0]
        except R.Malformed:
            continue
        nm = N.name_of(lm)
        if nm in ("CEA", "DWA", "DPA"):
            answers.append((nm, lm, pos))
    acc.counters["answers_seen"] += len(answers)
    wit.update({"round": round_no, "requests": requests, "answers": [(a[0], a[1].hbh, a[1].e2e) for a in answers], "closed": closed,
                "deaths": sc.sched.deaths, "state": sc.state()})
    if sc.sched.deaths:
        d = sc.sched.deaths[0]
        acc.violation("task-died:%s:%s" % (d["task"], d["type"]), "%s died: %s" % (d["task"], d["traceback"][-300:]), wit)
        return False
    got = [(a[0], a[1].hbh, a[1].e2e) for a in answers]
    if got != requests:
        # classify
        if len(got) < len(requests) and all(g in requests for g in got):
            key = "base-request-not-answered"
        elif len(got) > len(requests):
            key = "base-answer-without-request-or-duplicate"
        elif [g[0] for g in got] == [r[0] for r in requests]:
            key = "base-answer-carries-wrong-identifiers"
        else:
            key = "base-answers-out-of-order"
        acc.violation(key, "answers %s for requests %s" % (got[:12], requests[:12]), wit)
        return False
    for nm, lm, end in answers:
        oh = [a for a in lm.avps if a.code == 264]
        orr = [a for a in lm.avps if a.code == 296]
        rc = [a for a in lm.avps if a.code == 268]
        if lm.flags & 0x80 or not oh or oh[0].value != N.LOCAL[0].encode() or not orr or orr[0].value != N.LOCAL[1].encode() or len(rc) != 1:
            acc.violation("base-answer-malformed", "%s: flags %#x origin %r/%r result-codes %d" % (nm, lm.flags, oh and oh[0].value, orr and orr[0].value, len(rc)), wit)
            return False
    # emitted before any later inbound message is processed
    log = sc.node_sock.send_log
    consumed = [c for c in sc.consumed if c[0] in ("Open", "Closed") and c[1] in (257, 280, 282) and c[2]]
    def emit_step(end):
        for (_t, _o, _n, step, cum) in log:
            if cum >= end + case_offset[0]:
                return step
        return None
    case_offset = [wit.get("_offset", 0)]
    for i, (nm, lm, end) in enumerate(answers):
        es = emit_step(end)
        later = [c for c in sc.consumed if c[4] > (consumed[i][4] if i < len(consumed) else 10 ** 12)]
        if es is not None and later and es > later[0][4]:
            acc.violation("base-answer-emitted-after-later-inbound-was-processed", "%s for (%d,%d) left the socket at step %d, the next inbound message was taken at step %d" % (
                nm, lm.hbh, lm.e2e, es, later[0][4]), wit)
            return False
        acc.counters["ordering_checked"] += 1
    wit["_offset"] = len(sc.node_sock.sent_total)
    acc.counters["connections"] += 1
    return closed


def execute(acc, case):
    rng = random.Random(case["seed"])
    sc = N.Scenario(seed=case["seed"], strategy=case["strategy"], p=case.get("p", 0.1), role=case["role"], apps=[16777251],
                    lines=case["strategy"] != "rr", max_steps=900_000, wall_s=120, transport=case.get("transport", "TCP"))
    wit = {"case": case}
    if case.get("transport") == "SCTP":
        acc.counters["sctp_executions"] += 1      # SctpClient/SctpServer over a fake pysctp module (bvm/vnet.py)
    with sc:
        scen.slow_ticker(0.001)
        try:
            if sc.role == "client":
                sc.listen()
            if case.get("custom_base") is not None:
                # the application supplies some of the base-message templates itself (Diameter.get_base_messages([...])); the
                # others are filled in by the library
                from bromelia.proxy import DiameterBaseProxy as P
                node = sc.make_node()
                loaders = {"cer": P.load_cer, "cea": P.load_cea, "dwr": P.load_dwr, "dwa": P.load_dwa, "dpr": P.load_dpr, "dpa": P.load_dpa}
                node._base = node.get_base_messages([loaders[k](node._connection) for k in case["custom_base"]])
                acc.counters["nodes_with_custom_base_templates"] += 1
            for round_no in range(case["rounds"]):
                sc.consumed = []
                wit["_offset"] = 0
                sc.start_node()
                if not one_connection(acc, sc, rng, case, wit, round_no):
                    break
                if round_no + 1 < case["rounds"]:
                    # same node object, new connection
                    sc.sched.run_until(lambda: False, 0.2, "between-connections")
                    sc.peer_sock = sc.node_sock = None
                    acc.counters["reconnects"] += 1
        except vsched.DeadlockError as ex:
            acc.violation("deadlock", "deadlock: %s" % ex, dict(wit, stacks=sc.sched.stacks()))
        except vsched.WallClock as ex:
            acc.inconclusive.append("%s (case %r)" % (ex, case))
        except vsched.StepBudget as ex:
            acc.violation("spin-or-step-budget", "%s; tasks %s" % (ex, sc.sched.blocked_report()), wit)
        cov = sc.coverage()
    acc.evaluations += 1
    acc.sigs.add(harness.sig_hash("%s/%s/%s/%s" % (case["role"], case["n"], case["back_to_back"], cov["schedule"])))
    acc.counters["steps"] += cov["steps"]
    acc.sample({"case": case, "requests": wit.get("requests", [])[:6]}, limit=3)


def twin_case(acc, case):
    """Two node objects with the same local identity in one process (one client identity, two servers).  Node A's state-machine
    thread is parked at the k-th line of its DWR handling while node B answers a DWR of its own: each connection's DWA must
    still carry its own request's identifiers."""
    rng = random.Random(case["seed"])
    sc = N.Scenario(seed=case["seed"], strategy="rw", p=0.02, role="client", apps=[16777251], lines=True, max_steps=600_000, wall_s=90)
    wit = {"case": case}
    with sc:
        try:
            if not sc.open():
                acc.inconclusive.append("node A did not open (%r)" % (case,))
                return
            tw = N.Scenario.twin_of(sc)
            if not tw.open():
                acc.inconclusive.append("node B did not open (%r)" % (case,))
                return
            sc.read_emitted(); tw.read_emitted()
            psm_a = [t for t in sc.sched.tasks if t.name.endswith("_psm_thread")][0]
            ha, ea, hb, eb = rng.randrange(1, 2 ** 32), rng.randrange(1, 2 ** 32), rng.randrange(1, 2 ** 32), rng.randrange(1, 2 ** 32)
            funcs = {"event_open_rcv_dwr", "create_answer", "send_message", "put_message_into_send_queue", "send_message_from_queue",
                     "is_valid_device_watchdog", "run", "get_message", "_set_selector_events_mask"}
            sc.sched.parks.append({"task": psm_a, "nth": case["park"], "funcs": funcs, "timeout": 0.05,
                                   "release": lambda: any(N.name_of(m) == "DWA" for m in (tw.read_emitted() or tw.emitted_msgs))})
            sc.inject(R.encode(N.dwr(hbh=ha, e2e=ea)))
            sc.sched.run_until(lambda: psm_a.why == "parked" or any(N.name_of(m) == "DWA" for m in (sc.read_emitted() or sc.emitted_msgs)), 0.5, "A-parks")
            tw.inject(R.encode(N.dwr(hbh=hb, e2e=eb)))
            sc.sched.run_until(lambda: any(N.name_of(m) == "DWA" for m in (sc.read_emitted() or sc.emitted_msgs)) and
                               any(N.name_of(m) == "DWA" for m in (tw.read_emitted() or tw.emitted_msgs)), 2.0, "both-answer")
            acc.counters["twin_node_executions"] += 1
            if sc.sched.parked_at:
                acc.counters["twin_node_parked"] += 1
            ga = [(N.name_of(m), m.hbh, m.e2e) for m in sc.emitted_msgs if N.name_of(m) == "DWA"]
            gb = [(N.name_of(m), m.hbh, m.e2e) for m in tw.emitted_msgs if N.name_of(m) == "DWA"]
            wit.update({"A": ga, "B": gb, "want_A": (ha, ea), "want_B": (hb, eb), "parked_at": sc.sched.parked_at[:1], "deaths": sc.sched.deaths})
            if sc.sched.deaths:
                d = sc.sched.deaths[0]
                acc.violation("task-died:%s:%s" % (d["task"], d["type"]), "%s died: %s" % (d["task"], d["traceback"][-300:]), wit)
            elif ga != [("DWA", ha, ea)] or gb != [("DWA", hb, eb)]:
                acc.violation("base-answer-carries-wrong-identifiers", "two nodes with one local identity: connection A wrote %s for DWR (%d, %d), connection B wrote %s for DWR (%d, %d)" % (
                    ga, ha, ea, gb, hb, eb), wit)
            else:
                acc.counters["answers_seen"] += 2
        except vsched.DeadlockError as ex:
            acc.violation("deadlock", "deadlock: %s" % ex, dict(wit, stacks=sc.sched.stacks()))
        except vsched.WallClock as ex:
            acc.inconclusive.append("%s (case %r)" % (ex, case))
        except vsched.StepBudget as ex:
            acc.violation("spin", "%s; %s" % (ex, sc.sched.blocked_report()), wit)
    acc.evaluations += 1
    acc.sigs.add(harness.sig_hash("twin/%d" % case["park"]))


def backlog_race_case(acc, case):
    """The state-machine thread is parked at the k-th line of its handling of a base request while an application thread
    hands over more than one 256 KiB batch of messages: the answer is then queued behind (or among) them and leaves the node
    one or more ticks later.  It must still carry the request's identifiers, and be the only answer."""
    from bromelia.base import DiameterMessage
    rng = random.Random(case["seed"])
    role = case["role"]
    sc = N.Scenario(seed=case["seed"], strategy="rw", p=0.02, role=role, apps=[16777251], lines=True, max_steps=900_000, wall_s=90)
    wit = {"case": case}
    with sc:
        try:
            big = DiameterMessage.load(R.encode(N.app_request(778, size=70000, host=N.LOCAL[0], realm=N.LOCAL[1], dest_realm=N.PEER[1])))[0]
            requests = []
            if case["kind"] == "pre-ce":
                # server role: the application queues its backlog as soon as the transport is up, before the peer's CER is handled
                sc.start_node()
                if not sc.connect_transport():
                    acc.inconclusive.append("transport set-up failed (%r)" % (case,))
                    return
                sc.sched.run_until(lambda: getattr(getattr(sc.node._association, "transport", None), "is_connected", False), 1.0, "transport-up")
                try:
                    sc.node.send_messages([big] * case["backlog"])
                    acc.counters["backlog_before_capabilities_exchange"] += 1
                except BaseException as ex:
                    if isinstance(ex, vsched.ControlException):
                        raise
                    acc.observe("send_messages-before-open-raises:%s" % type(ex).__name__)
                h, e = rng.randrange(1, 2 ** 32), rng.randrange(1, 2 ** 32)
                sc.inject(R.encode(N.cer(hbh=h, e2e=e, apps=sc.apps)))
                requests.append(("CEA", h, e))
                sc.sched.run_until(lambda: sc.node.is_open(), 20, "open")
            else:
                if not sc.open():
                    acc.inconclusive.append("node did not open (%r)" % (case,))
                    return
                sc.read_emitted()
                sc.emitted_msgs = []
                psm = [t for t in sc.sched.tasks if t.name.endswith("_psm_thread")][0]
                done = []

                def submitter():
                    sc.sched.block_until(lambda: bool(sc.sched.parked_at), 1.0, "late-submitter")
                    sc.node.send_messages([big] * case["backlog"])
                    done.append(1)
                funcs = {"event_open_rcv_dwr", "event_open_rcv_cer", "create_answer", "send_message", "put_message_into_send_queue", "is_valid_device_watchdog",
                         "is_valid_capability_exchange", "process_request"}
                sc.sched.parks.append({"task": psm, "nth": case["park"], "funcs": funcs, "timeout": 1.0, "release": lambda: bool(done)})
                sc.sched.spawn("submitter", submitter)
                h, e = rng.randrange(1, 2 ** 32), rng.randrange(1, 2 ** 32)
                if case["kind"] == "dwr":
                    sc.inject(R.encode(N.dwr(hbh=h, e2e=e)))
                    requests.append(("DWA", h, e))
                else:
                    sc.inject(R.encode(N.cer(hbh=h, e2e=e, apps=sc.apps)))
                    requests.append(("CEA", h, e))
                sc.sched.run_until(lambda: bool(done), 3.0, "backlog-submitted")
            # a second request behind the first, then everything drains
            h2, e2 = rng.randrange(1, 2 ** 32), rng.randrange(1, 2 ** 32)
            sc.inject(R.encode(N.dwr(hbh=h2, e2e=e2)))
            requests.append(("DWA", h2, e2))
            want_app = case["backlog"]
            seen = []

            def drained():
                seen.extend(sc.read_emitted())
                return len([m for m in seen if N.name_of(m) in ("CEA", "DWA")]) >= len(requests) and len([m for m in seen if N.marker_of(m) == 778]) >= want_app
            sc.sched.run_until(drained, 6.0, "drain")
            sc.sched.run_until(lambda: False, 0.02, "grace")
            drained()
            acc.counters["backlog_race_executions"] += 1
            if sc.sched.parked_at:
                acc.counters["backlog_race_parked"] += 1
            got = [(N.name_of(m), m.hbh, m.e2e) for m in seen if N.name_of(m) in ("CEA", "DWA", "DPA")]
            wit.update({"requests": requests, "answers": got, "app_written": len([m for m in seen if N.marker_of(m) == 778]), "parked_at": sc.sched.parked_at[:1], "deaths": sc.sched.deaths})
            if sc.sched.deaths:
                d = sc.sched.deaths[0]
                acc.violation("task-died:%s:%s" % (d["task"], d["type"]), "%s died: %s" % (d["task"], d["traceback"][-300:]), wit)
            elif got != requests:
                if len(got) < len(requests) and all(g in requests for g in got):
                    key = "base-request-not-answered"
                elif len(got) > len(requests):
                    key = "base-answer-without-request-or-duplicate"
                elif [g[0] for g in got] == [r[0] for r in requests]:
                    key = "base-answer-carries-wrong-identifiers"
                else:
                    key = "base-answers-out-of-order"
                acc.violation(key, "send queue backed up past one batch while the request was handled: answers %s for requests %s" % (got, requests), wit)
            else:
                acc.counters["answers_seen"] += len(got)
        except vsched.DeadlockError as ex:
            acc.violation("deadlock", "deadlock: %s" % ex, dict(wit, stacks=sc.sched.stacks()))
        except vsched.WallClock as ex:
            acc.inconclusive.append("%s (case %r)" % (ex, case))
        except vsched.StepBudget as ex:
            acc.violation("spin", "%s; %s" % (ex, sc.sched.blocked_report()), wit)
    acc.evaluations += 1
    acc.sigs.add(harness.sig_hash("backlog-race/%s/%s/%s" % (case["kind"], case["role"], case.get("park"))))


def run_batch(b):
    acc = harness.Acc()
    if b.get("real"):
        from bvm import realnet
        realnet.run_cases(acc, b["real"])
        return acc
    for case in b["cases"]:
        if case.get("race"):
            backlog_race_case(acc, case)
        elif case.get("twin"):
            twin_case(acc, case)
        else:
            execute(acc, case)
    return acc


def main(tier, seed):
    t0 = time.time()
    q = tier == "quick"
    rng = random.Random(seed)
    cases = []
    for i in range(200 if q else 30000):
        cases.append({"seed": seed * 1009 + i, "role": rng.choice(["client", "server"]), "n": rng.choice([1, 2, 3, 6, 12]),
                      "back_to_back": rng.random() < 0.5, "strategy": rng.choice(["rr", "rr", "rw"]), "p": rng.choice([0.02, 0.1]),
                      "rounds": rng.choice([1, 1, 2, 3]), "flood": rng.choice([0, 0, 0, 6]), "transport": rng.choice(["TCP", "TCP", "TCP", "SCTP"]),
                      "app_base_answers": (0, 0, 0, 4, 8)[i % 5],
                      "custom_base": None if i % 4 else rng.sample(["cer", "cea", "dwr", "dwa", "dpr", "dpa"], rng.choice([1, 1, 2, 3, 5]))})
    for i in range(24 if q else 2000):
        cases.append({"seed": seed * 1013 + i, "role": rng.choice(["client", "server"]), "n": rng.choice([2, 3, 5]), "back_to_back": True,
                      "strategy": rng.choice(["rr", "rw"]), "p": 0.05, "rounds": 1, "flood": 0, "backlog": rng.choice([12, 24])})
    for k in range(0, 70, 2 if q else 1):
        cases.append({"twin": True, "seed": seed * 331 + k, "park": k})
    for k in range(0, 40, 2 if q else 1):
        for kind in ("dwr", "cer"):
            cases.append({"race": True, "kind": kind, "role": ("client", "server")[k % 2] if q else rng.choice(["client", "server"]), "park": k, "backlog": rng.choice([5, 9]), "seed": seed * 577 + k})
    for i in range(4 if q else 40):
        cases.append({"race": True, "kind": "pre-ce", "role": "server", "backlog": rng.choice([3, 5, 9]), "seed": seed * 587 + i})
    nb = 16 if q else 64
    batches = [{"cases": cases[i::nb]} for i in range(nb)]
    # real loopback (bvm/realnet.py): bursts of DWR/CER/DPR with boundary identifiers, two connections of the same object
    for i in range(4 if q else 16):
        batches.append({"real": [{"kind": "base", "seed": seed * 613 + i * 17 + j, "role": ("client", "server")[(i + j) % 2]} for j in range(1 if q else 5)]})
    for i in range(1 if q else 8):
        batches.append({"real": [{"kind": "twins", "seed": seed * 617 + i}]})
    acc = harness.run_workers("checks.c07_base_answers", "run_batch", batches, 3400)
    harness.require_vnet_fidelity(acc)
    return harness.finish(PROP, tier, seed, "exploration", acc, RULE,
                          ["the peer is scripted by the driver task; answers are read from the bytes the node wrote to the substituted socket",
                           "identifier pairs are sampled (boundary + random), not enumerated over 2^64",
                           "emission order is decided on scheduler steps: the send() that carried the answer's last byte vs the step at which the state machine took the next inbound message"],
                          t0, require_counters=("answers_seen", "connections", "reconnects", "ordering_checked", "backlog_cases", "real_loopback_ok", "stray_base_answers_injected", "application_base_answers_submitted", "nodes_with_custom_base_templates", "twin_node_executions", "twin_node_parked", "backlog_race_executions", "backlog_race_parked"))


def replay(w):
    acc = harness.Acc()
    c = w["witness"]["case"]
    (backlog_race_case if c.get("race") else twin_case if c.get("twin") else execute)(acc, c)
    for v in acc.violations:
        print("VIOLATION property=C07 replay=<this>", v["key"], v["what"][:400])
    return 1 if acc.violations else 0
