"""C20 - typed AVP value accessors agree with the wire data for every value."""
import datetime
import ipaddress
import random
import time

from bvm import harness, discover, refcodec as R

PROP = "C20"
RULE = ("bits: every Unsigned32 dictionary class x boundary words (0, all-ones, single bits, complements, "
        "byte-boundary patterns) x all 32 indices exhaustively + random (word, index) pairs, oracle = integer "
        "arithmetic on the big-endian word; addresses: IPv4/IPv6 literals by structure on every Address class, "
        "oracle = ipaddress; time: instants 1900..2036, oracle = floor seconds since 1900-01-01; a case is "
        "distinct per (class, word, index) / (class, literal) / (class, instant)")


def lib_error(ex):
    import bromelia.exceptions as E
    return type(ex).__module__ == E.__name__


def check_bits(acc, cls, w, i):
    from bromelia.exceptions import DiameterTypeError
    want = bool((w >> i) & 1)
    avp = cls(w)
    acc.counters["bit_cases"] += 1
    got = avp.is_bit_set(i)
    wit = {"kind": "bit", "class": cls.__name__, "word": w, "index": i}
    if got is not want and got != want:
        acc.violation("is-bit-set-wrong", "%s(%#x).is_bit_set(%d) = %r" % (cls.__name__, w, i, got), wit)
        return
    # redundant operation must be rejected with the library error and leave the word alone
    red = avp.set_bit if want else avp.unset_bit
    try:
        red(i)
        acc.violation("redundant-bit-op-accepted", "%s(%#x).%s(%d) did not raise" % (cls.__name__, w, red.__name__, i), wit)
    except DiameterTypeError:
        if avp.data != w.to_bytes(4, "big"):
            acc.violation("redundant-bit-op-changed-data", "%s(%#x) after rejected %s(%d): %s" % (
                cls.__name__, w, red.__name__, i, avp.data.hex()), wit)
    except BaseException as ex:
        acc.violation("redundant-bit-op-wrong-error", "%s(%#x).%s(%d) raised %r" % (cls.__name__, w, red.__name__, i, ex), wit)
    op = avp.unset_bit if want else avp.set_bit
    new = (w & ~(1 << i)) if want else (w | (1 << i))
    try:
        ret = op(i)
    except BaseException as ex:
        acc.violation("bit-op-raises", "%s(%#x).%s(%d) raised %r" % (cls.__name__, w, op.__name__, i, ex), wit)
        return
    if avp.data != new.to_bytes(4, "big") or ret != avp.data:
        acc.violation("bit-op-wrong-word", "%s(%#x).%s(%d) -> data %s ret %r, want %08x" % (
            cls.__name__, w, op.__name__, i, avp.data.hex(), ret, new), wit)
        return
    if avp.is_bit_set(i) == want:
        acc.violation("is-bit-set-wrong", "%s: bit %d not toggled as seen by is_bit_set" % (cls.__name__, i), wit)
    if (w ^ i) % 5 == 0:
        # the word replaced through the public `data` attribute: the bit test reads the word the object carries now
        w2 = (w * 2654435761 + i) & 0xffffffff
        avp.data = w2.to_bytes(4, "big")
        acc.counters["bit_data_replaced"] += 1
        if bool(avp.is_bit_set(i)) != bool((w2 >> i) & 1):
            acc.violation("is-bit-set-stale-after-data-replaced", "%s(%#x) then data := %08x: is_bit_set(%d) = %r" % (cls.__name__, w, w2, i, avp.is_bit_set(i)), wit)
        avp.data = new.to_bytes(4, "big")
    d = avp.dump()
    hdr = 12 if d[4] & 0x80 else 8
    if d[hdr:hdr + 4] != new.to_bytes(4, "big"):
        acc.violation("bit-op-not-on-wire", "%s dump() after %s(%d) carries %s" % (cls.__name__, op.__name__, i, d[hdr:hdr + 4].hex()), wit)


def check_bit_range(acc, cls, w, i):
    from bromelia.exceptions import DiameterTypeError
    for name in ("is_bit_set", "set_bit", "unset_bit"):
        avp = cls(w)
        acc.counters["bit_range_cases"] += 1
        try:
            getattr(avp, name)(i)
            acc.violation("bit-index-out-of-range-accepted", "%s(%#x).%s(%d) did not raise" % (cls.__name__, w, name, i),
                          {"kind": "bitrange", "class": cls.__name__, "word": w, "index": i})
        except DiameterTypeError:
            if avp.data != w.to_bytes(4, "big"):
                acc.violation("bit-index-out-of-range-changed-data", "%s(%#x).%s(%d)" % (cls.__name__, w, name, i),
                              {"kind": "bitrange", "class": cls.__name__, "word": w, "index": i})
        except BaseException as ex:
            acc.violation("bit-index-out-of-range-wrong-error", "%s(%#x).%s(%d) raised %r" % (cls.__name__, w, name, i, ex),
                          {"kind": "bitrange", "class": cls.__name__, "word": w, "index": i})


def check_addr(acc, cls, lit, prev=None):
    wit = {"kind": "addr", "class": cls.__name__, "literal": lit}
    ip = ipaddress.ip_address(lit)
    want = R.enc_address(lit)
    acc.counters["addr_cases"] += 1
    try:
        avp = cls(lit)
    except BaseException as ex:
        acc.violation("address-literal-rejected", "%s(%r) raised %r" % (cls.__name__, lit, ex), wit)
        return
    if avp.data != want:
        acc.violation("address-data-wrong", "%s(%r).data = %s want %s" % (cls.__name__, lit, avp.data.hex(), want.hex()), wit)
        return
    try:
        back, v4, v6 = avp.get_ip_address(), avp.is_ipv4(), avp.is_ipv6()
    except BaseException as ex:
        acc.violation("address-accessor-raises", "%s(%r) accessor raised %r" % (cls.__name__, lit, ex), wit)
        return
    try:
        same = ipaddress.ip_address(back) == ip
    except ValueError:
        same = False
    if not same or v4 != (ip.version == 4) or v6 != (ip.version == 6):
        acc.violation("address-accessor-wrong", "%s(%r): get_ip_address=%r is_ipv4=%r is_ipv6=%r" % (
            cls.__name__, lit, back, v4, v6), wit)
    if prev is not None:
        # the object lives on: its data is replaced through the public `data` attribute by the encoding of another address
        # (and back); the accessors read what the object carries now
        for nxt in (prev, lit):
            ip2, want2 = ipaddress.ip_address(nxt), R.enc_address(nxt)
            acc.counters["addr_data_replaced"] += 1
            try:
                avp.data = want2
                back, v4, v6, d = avp.get_ip_address(), avp.is_ipv4(), avp.is_ipv6(), avp.dump()
                ok = ipaddress.ip_address(back) == ip2 and v4 == (ip2.version == 4) and v6 == (ip2.version == 6) and avp.data == want2 and want2 in d
            except BaseException as ex:
                acc.violation("address-accessor-raises-after-data-replaced", "%s(%r) then data := %s: %r" % (cls.__name__, lit, want2.hex(), ex), wit)
                return
            if not ok:
                acc.violation("address-accessor-stale-after-data-replaced", "%s(%r) then data := encoding of %r: get_ip_address=%r is_ipv4=%r is_ipv6=%r data=%s" % (
                    cls.__name__, lit, nxt, back, v4, v6, avp.data.hex()), dict(wit, replaced_by=nxt))
                return
    # the same value given as bytes is carried unchanged and reads back the same
    avp2 = cls(want)
    if avp2.data != want or ipaddress.ip_address(avp2.get_ip_address()) != ip:
        acc.violation("address-bytes-form-wrong", "%s(%s)" % (cls.__name__, want.hex()), wit)


def check_time(acc, cls, t):
    wit = {"kind": "time", "class": cls.__name__, "instant": t.isoformat()}
    lo, hi = R.EPOCH_1900, R.EPOCH_1900 + datetime.timedelta(seconds=2 ** 32)
    if lo <= t < hi:
        acc.counters["time_cases"] += 1
        want = R.enc_time(t)
        try:
            avp = cls(t)
        except BaseException as ex:
            acc.violation("time-instant-rejected", "%s(%s) raised %r" % (cls.__name__, t.isoformat(), ex), wit)
            return
        if avp.data != want:
            acc.violation("time-data-wrong", "%s(%s).data = %s want %s" % (cls.__name__, t.isoformat(), avp.data.hex(), want.hex()), wit)
    else:
        try:
            avp = cls(t)
            acc.observe("out-of-range-instant-accepted:" + cls.__name__)
        except BaseException:
            acc.observe("out-of-range-instant-rejected")


def _words(rng, n):
    ws = {0, 2 ** 32 - 1, 0x000000ff, 0x0000ff00, 0x00ff0000, 0xff000000, 0x80000001, 0x00800100, 0x01010101,
          0xaaaaaaaa, 0x55555555, 0x0000ffff, 0xffff0000, 0x00018000, 0x7fffffff, 0xfffffffe}
    for i in range(32):
        ws.add(1 << i)
        ws.add((2 ** 32 - 1) ^ (1 << i))
    while len(ws) < n:
        ws.add(rng.randrange(2 ** 32))
    return sorted(ws)


def run_batch(b):
    from bvm.gen import Gen, ADDR4, ADDR6
    acc = harness.Acc()
    rng = random.Random(b["seed"])
    classes = {c.__name__: c for c in discover.avp_classes()}
    if b["kind"] == "bits":
        words = _words(rng, b["nwords"])
        for cname in b["classes"]:
            cls = classes[cname]
            for w in words:
                for i in range(32):
                    acc.evaluations += 1
                    check_bits(acc, cls, w, i)
            for w in words[:6]:
                for i in (-1, 32, 33, 63, 64, -32, 255, 2 ** 31):
                    acc.evaluations += 1
                    check_bit_range(acc, cls, w, i)
            for _ in range(b["nrandom"]):
                acc.evaluations += 1
                check_bits(acc, cls, rng.randrange(2 ** 32), rng.randrange(32))
            acc.sigs.add(cname)
        acc.extra["distinct_judged"] = acc.evaluations
        acc.sample({"bits": {"class": b["classes"][0], "word": words[5], "indices": "0..31"}})
    elif b["kind"] == "addr":
        g = Gen(b["seed"])
        lits = set(ADDR4) | set(ADDR6)
        for a in (0, 1, 127, 128, 254, 255):
            for pos in range(4):
                o = ["10", "20", "30", "40"]
                o[pos] = str(a)
                lits.add(".".join(o))
        while len(lits) < b["n"]:
            lits.add(g.address())
        n = 0
        for cname in b["classes"]:
            order = sorted(lits)
            rng.shuffle(order)
            for k, lit in enumerate(order):
                acc.evaluations += 1
                n += 1
                check_addr(acc, classes[cname], lit, prev=order[k - 1] if k % 2 else None)
            acc.sigs.add(cname)
        acc.extra["distinct_judged"] = n
        acc.sample({"addr": {"class": b["classes"][0], "literals": sorted(lits)[:5]}})
    elif b["kind"] == "time":
        g = Gen(b["seed"])
        ts = set()
        for y in range(1900, 2037):
            for d in (-1, 0, 1):
                ts.add(datetime.datetime(y, 1, 1) + datetime.timedelta(seconds=d))
        last = R.EPOCH_1900 + datetime.timedelta(seconds=2 ** 32 - 1)
        for d in (-2, -1, 0, 1, 2, 86400):
            ts.add(last + datetime.timedelta(seconds=d))
        ts.add(datetime.datetime(1899, 12, 31, 23, 59, 59))
        ts.add(datetime.datetime(1800, 1, 1))
        ts.add(datetime.datetime(2100, 1, 1))
        while len(ts) < b["n"]:
            ts.add(g.instant())
        n = 0
        for cname in b["classes"]:
            for t in sorted(ts):
                acc.evaluations += 1
                n += 1
                check_time(acc, classes[cname], t)
            acc.sigs.add(cname)
        acc.extra["distinct_judged"] = n
        acc.sample({"time": {"class": b["classes"][0], "instants": [t.isoformat() for t in sorted(ts)[400:403]]}})
    return acc


def main(tier, seed):
    t0 = time.time()
    cl = discover.avp_classes()
    u32 = sorted({c.__name__ for c in cl if discover.kind_of(c) == "Unsigned32"})
    addr = sorted({c.__name__ for c in cl if discover.kind_of(c) == "Address" and c.__name__ != "FramedIpAddressAVP"})
    tm = sorted({c.__name__ for c in cl if discover.kind_of(c) == "Time"})
    q = tier == "quick"
    batches = []
    for i in range(0, len(u32), 4):
        batches.append({"kind": "bits", "classes": u32[i:i + 4], "seed": seed * 100 + i,
                        "nwords": 90 if q else 1500, "nrandom": 500 if q else 100000})
    for i, c in enumerate(addr):
        batches.append({"kind": "addr", "classes": [c], "seed": seed * 100 + i, "n": 3000 if q else 400000})
    for i, c in enumerate(tm):
        batches.append({"kind": "time", "classes": [c], "seed": seed * 100 + i, "n": 20000 if q else 2000000})
    acc = harness.run_workers("checks.c20_typed_accessors", "run_batch", batches, 900)
    classes_seen = len(acc.sigs)
    distinct = acc.extra.pop("distinct_judged", 0)
    acc.sigs = set()
    if classes_seen != len(u32) + len(addr) + len(tm):
        acc.inconclusive.append("only %d of %d classes were exercised" % (classes_seen, len(u32) + len(addr) + len(tm)))
    return harness.finish(PROP, tier, seed, "exploration", acc, RULE,
                          ["FramedIpAddressAVP is excluded from the Address clauses: RFC 7155 defines Framed-IP-Address as a "
                           "4-octet OctetString and the class encodes it that way (its wire form is judged by C01/C10)",
                           "naive datetimes only; out-of-range instants are observed, not judged (C10 owns them)",
                           "IPv6 zone ids excluded"],
                          t0, extra_cov={"distinct_nontrivial": distinct, "classes": {"unsigned32": len(u32), "address": len(addr), "time": len(tm)}},
                          require_counters=("bit_cases", "bit_range_cases", "addr_cases", "time_cases"))


def replay(w):
    acc = harness.Acc()
    x = w["witness"]
    cls = {c.__name__: c for c in discover.avp_classes()}[x["class"]]
    if x["kind"] == "bit":
        check_bits(acc, cls, x["word"], x["index"])
    elif x["kind"] == "bitrange":
        check_bit_range(acc, cls, x["word"], x["index"])
    elif x["kind"] == "addr":
        check_addr(acc, cls, x["literal"])
    else:
        check_time(acc, cls, datetime.datetime.fromisoformat(x["instant"]))
    for v in acc.violations:
        print("VIOLATION property=C20 replay=<this>", v["what"])
    return 1 if acc.violations else 0
