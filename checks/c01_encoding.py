"""C01 - serialised messages are exactly the RFC 6733 encoding of their content.

Reference-model monitor on dump(): every AVP / header / message built through the public API is
compared byte-for-byte with bvm.refcodec.encode of the same logical content."""
import random
import time

from bvm import harness, discover, refcodec as R
from bvm.gen import Gen, lavp_depth

PROP = "C01"
RULE = ("dictionary-driven generation: each of the dictionary classes with in-domain values in every accepted "
        "argument form (data length residues 0..3 forced where the type allows), generic AVPs with V consistent "
        "with the vendor, Grouped AVPs by list and by bytes nested to depth >= 3, headers with boundary/random "
        "fields as int and bytes, messages assembled by constructor list / append / extend / avps=; oracle: "
        "independent RFC 6733 encoder; distinct = structural signature (class x form x residue x vendor x depth x "
        "construction path); trivial = empty message")


def first_diff(a, b):
    n = min(len(a), len(b))
    for i in range(n):
        if a[i] != b[i]:
            return i
    return n if len(a) != len(b) else -1


def field_of(offset, vendor):
    if offset < 4:
        return "code"
    if offset == 4:
        return "flags"
    if offset < 8:
        return "length"
    if vendor and offset < 12:
        return "vendor-id"
    return "data-or-padding"


def check_avp(acc, spec, path="avp"):
    name = spec.cls.__name__ if spec.cls else "DiameterAVP"
    want = R.encode_avp(spec.lavp)
    try:
        obj = spec.build()
    except BaseException as ex:
        acc.observe("in-domain-value-rejected:%s:%s" % (name, type(ex).__name__))
        return None
    acc.counters["avp_dumps"] += 1
    got = obj.dump()
    if got != want:
        off = first_diff(got, want)
        fld = field_of(off, spec.lavp.vendor is not None)
        acc.violation("avp-encoding-%s" % fld,
                      "%s: dump() differs from the reference encoding at offset %d (%s): got %s want %s" % (
                          name, off, fld, got.hex()[:160], want.hex()[:160]),
                      {"spec": spec.describe(), "got": got.hex(), "want": want.hex()})
        return None
    # always-on wire postconditions
    if len(got) % 4 or int.from_bytes(got[5:8], "big") != (12 if got[4] & 0x80 else 8) + len(R.avp_data(spec.lavp)):
        acc.violation("avp-wire-postcondition", "%s: %s" % (name, got.hex()[:80]), {"spec": spec.describe()})
    # views
    try:
        views = {"bytes()": bytes(obj), "copy().dump()": obj.copy().dump()}
        if len(obj) != int.from_bytes(want[5:8], "big"):
            acc.violation("avp-len-view", "%s: len() = %d, wire length %d" % (name, len(obj), int.from_bytes(want[5:8], "big")),
                          {"spec": spec.describe()})
        from bromelia.base import DiameterAVP
        views["convert().dump()"] = DiameterAVP.convert(obj).dump()
        for k, v in views.items():
            if v != want:
                acc.violation("avp-view-differs", "%s: %s = %s, dump() = %s" % (name, k, v.hex()[:120], want.hex()[:120]),
                              {"spec": spec.describe(), "view": k})
    except BaseException as ex:
        acc.violation("avp-view-raises", "%s: view raised %r" % (name, ex), {"spec": spec.describe()})
    return obj


def mutate_and_check(acc, g, spec, obj):
    """Content changed through the public setters after construction must serialise as the new content."""
    r = g.rng
    name = spec.cls.__name__ if spec.cls else "DiameterAVP"
    l = R.LAvp.from_json(spec.lavp.to_json())
    kind = g.rd["avps"][name]["type"] if spec.cls else "generic"
    ops = ["m-bit", "p-bit"]
    if kind in ("OctetString", "UTF8String", "DiameterIdentity", "generic") and name not in ("MsisdnAVP", "StnSrAVP"):
        ops.append("data")
    if kind == "generic":
        ops += ["code", "flags"]
    if kind == "Grouped" and isinstance(l.value, list) and spec.members is not None and len(l.value) > len(g.rd["avps"][name]["mandatory"]):
        ops.append("pop-member")
    op = r.choice(ops)
    try:
        if op == "m-bit":
            obj.set_mandatory_bit(not obj.is_mandatory())
            l.flags ^= 0x40
        elif op == "p-bit":
            obj.set_protected_bit(not obj.is_protected())
            l.flags ^= 0x20
        elif op == "data":
            new = g.octets(residue=r.randrange(4))
            obj.data = new
            l.value = new
        elif op == "code":
            c = r.randrange(1, 2 ** 32)
            obj.code = c
            l.code = c
        elif op == "flags":
            f = (r.randrange(256) & 0x7f) | (l.flags & 0x80)
            obj.flags = f
            l.flags = f
        elif op == "pop-member":
            # remove the member that was appended last (never a mandatory one: those come first in the constructor list)
            names = [k for k in obj.__dict__ if "_avp" in k and k != "_avps"]
            last = obj.avps[-1]
            key = [k for k in names if obj.__dict__[k] is last]
            mand_codes = {g.rd["avps"][m]["code"] for m in g.rd["avps"][name]["mandatory"].values()}
            if not key or last.get_code() in mand_codes:
                return
            obj.pop(key[0])
            l.value = l.value[:-1]
    except BaseException as ex:
        acc.observe("setter-rejected:%s:%s:%s" % (kind, op, type(ex).__name__))
        return
    acc.counters["post_construction_mutations"] += 1
    want = R.encode_avp(l)
    got = obj.dump()
    acc.case("mutate/%s/%s/r%d" % (kind, op, len(R.avp_data(l)) % 4))
    if got != want:
        off = first_diff(got, want)
        acc.violation("avp-encoding-after-%s" % op, "%s after %s: dump() differs from the reference at offset %d: got %s want %s" % (
            name, op, off, got.hex()[:120], want.hex()[:120]), {"spec": spec.describe(), "op": op, "got": got.hex(), "want": want.hex()})


def check_header(acc, g):
    from bromelia.base import DiameterHeader
    f = g.header_fields()
    r = g.rng
    kw = {}
    for k, width, key in (("version", 1, "version"), ("flags", 1, "flags"), ("command_code", 3, "code"),
                          ("application_id", 4, "app_id"), ("hop_by_hop", 4, "hbh"), ("end_to_end", 4, "e2e")):
        kw[k] = f[key] if r.random() < 0.6 else f[key].to_bytes(width, "big")
    want = R.encode(R.LMsg(f["version"], f["flags"], f["code"], f["app_id"], f["hbh"], f["e2e"], []))
    acc.counters["header_dumps"] += 1
    try:
        h = DiameterHeader(**kw)
        got = h.dump()
        views_ok = bytes(h) == want and len(h) == 20 and h.copy().dump() == want
    except BaseException as ex:
        # every field value here is in its domain (0 .. max of the field's width, as int or as bytes)
        acc.violation("header-encoding-raises", "DiameterHeader(%r): %r" % (kw, ex), {"kwargs": {k: (v.hex() if isinstance(v, bytes) else v) for k, v in kw.items()}})
        return
    if got != want or not views_ok:
        acc.violation("header-encoding", "DiameterHeader(%r).dump() = %s want %s" % (kw, got.hex(), want.hex()),
                      {"kwargs": {k: (v.hex() if isinstance(v, bytes) else v) for k, v in kw.items()}})
    getters = (h.get_version(), h.get_flags(), h.get_command_code(), h.get_application_id(), h.get_hop_by_hop(), h.get_end_to_end())
    if getters != (f["version"], f["flags"], f["code"], f["app_id"], f["hbh"], f["e2e"]):
        acc.violation("header-getters", "getters %r for fields %r" % (getters, f), {"fields": f})
    acc.case("header/%s" % "".join("b" if isinstance(v, bytes) else "i" for v in kw.values()))
    # the same fields re-assigned through the attribute setters of a live header (int or bytes): the header then carries the
    # new values, each of them
    f2 = g.header_fields()
    h2 = DiameterHeader(**kw)
    try:
        for k, width, key in (("version", 1, "version"), ("flags", 1, "flags"), ("command_code", 3, "code"),
                              ("application_id", 4, "app_id"), ("hop_by_hop", 4, "hbh"), ("end_to_end", 4, "e2e")):
            setattr(h2, k, f2[key] if r.random() < 0.6 else f2[key].to_bytes(width, "big"))
        got2 = h2.dump()
    except BaseException as ex:
        acc.violation("header-setter-raises", "fields %r assigned to a live header: %r" % (f2, ex), {"fields": f2, "kwargs_before": {k: (v.hex() if isinstance(v, bytes) else v) for k, v in kw.items()}})
        return
    acc.counters["header_fields_reassigned"] += 1
    want2 = R.encode(R.LMsg(f2["version"], f2["flags"], f2["code"], f2["app_id"], f2["hbh"], f2["e2e"], []))
    if got2 != want2:
        acc.violation("header-encoding-after-setters", "header re-assigned to %r dumps %s want %s" % (f2, got2.hex(), want2.hex()),
                      {"fields": f2, "kwargs_before": {k: (v.hex() if isinstance(v, bytes) else v) for k, v in kw.items()}})
        return
    # the Command Flags are also set bit by bit: each setter changes its own bit and nothing else, the predicates read the
    # same byte, and the header serialises with it.  A setter may refuse (library error) what its rules exclude - R with E,
    # a bit that is already in the requested state - and then leaves the header as it was.
    flags = f["flags"]
    BITS = {"request": 0x80, "proxiable": 0x40, "error": 0x20, "retransmitted": 0x10}
    trace = []
    for _ in range(r.randrange(0, 7)):
        name = r.choice(list(BITS))
        state = r.random() < 0.5
        bit = BITS[name]
        must = bool(flags & bit) != state and not (name == "request" and flags & 0x20) and not (name == "error" and flags & 0x80)
        trace.append("%s=%s" % (name, state))
        try:
            getattr(h, "set_%s_bit" % name)(state)
            done = True
        except BaseException as ex:
            if type(ex).__module__ != "bromelia.exceptions":
                acc.violation("header-flag-setter-raises-%s" % type(ex).__name__, "set_%s_bit(%r) on flags %#04x raised %r" % (name, state, flags, ex), {"fields": f, "trace": trace})
                return
            done = False
            if must:
                acc.violation("header-flag-setter-refuses:%s" % name, "set_%s_bit(%r) on flags %#04x was refused: %r" % (name, state, flags, ex), {"fields": f, "trace": trace})
                return
        if done:
            flags = (flags | bit) if state else (flags & ~bit & 0xff)
        acc.counters["header_flag_ops"] += 1
        want = R.encode(R.LMsg(f["version"], flags, f["code"], f["app_id"], f["hbh"], f["e2e"], []))
        preds = (h.is_request(), h.is_proxiable(), h.is_error(), h.is_retransmitted())
        if h.dump() != want or h.get_flags() != flags or preds != tuple(bool(flags & b) for b in BITS.values()):
            acc.violation("header-flag-op:%s" % name, "after %s on a header with flags %#04x: dump %s, get_flags %#04x, predicates %r; expected flags %#04x" % (
                trace, f["flags"], h.dump().hex(), h.get_flags(), preds, flags), {"fields": f, "trace": trace})
            return


def check_message(acc, g, maxavps):
    from bromelia.base import DiameterHeader, DiameterMessage
    r = g.rng
    f = g.header_fields()
    specs = [g.any_avp(maxdepth=4) for _ in range(r.randrange(0, maxavps + 1))]
    if specs and r.random() < 0.3:
        # a second and third AVP of the same name
        specs.append(g.avp(specs[0].cls) if specs[0].cls else g.generic())
        if r.random() < 0.5:
            specs.append(g.avp(specs[0].cls) if specs[0].cls else g.generic())
    try:
        objs = [s.build() for s in specs]
    except BaseException as ex:
        acc.observe("in-domain-value-rejected:message-member:%s" % type(ex).__name__)
        return
    lmsg = R.LMsg(f["version"], f["flags"], f["code"], f["app_id"], f["hbh"], f["e2e"], [s.lavp for s in specs])
    want = R.encode(lmsg)
    hdr = DiameterHeader(version=f["version"], flags=f["flags"], command_code=f["code"], application_id=f["app_id"],
                         hop_by_hop=f["hbh"], end_to_end=f["e2e"])
    path = r.choice(["ctor", "append", "extend", "avps=", "mixed", "req-header", "ans-header", "req-fields", "ans-fields"])
    if path in ("req-header", "ans-header", "req-fields", "ans-fields"):
        # the request/answer classes: R set / clear, P exactly for a non-zero Application-ID (their documented rule), every
        # other header field as given; without header= a request draws its identifiers and an answer leaves them zero
        from bromelia.base import DiameterRequest, DiameterAnswer
        cls = DiameterRequest if path.startswith("req") else DiameterAnswer
        flags = (0x80 if cls is DiameterRequest else 0) | (0x40 if f["app_id"] else 0)
        if path.endswith("header"):
            m = cls(header=hdr, avps=objs if r.random() < 0.5 else None)
            if not m.avps and objs:
                m.extend(objs)
            lmsg = R.LMsg(f["version"], flags, f["code"], f["app_id"], f["hbh"], f["e2e"], [s.lavp for s in specs])
        else:
            m = cls(version=f["version"], command_code=f["code"], application_id=f["app_id"], avps=objs)
            ids = (m.header.get_hop_by_hop(), m.header.get_end_to_end())
            if cls is DiameterAnswer and ids != (0, 0):
                acc.violation("message-header", "DiameterAnswer built from fields carries identifiers %r" % (ids,), {"header": f, "path": path})
            lmsg = R.LMsg(f["version"], flags, f["code"], f["app_id"], ids[0], ids[1], [s.lavp for s in specs])
        want = R.encode(lmsg)
        acc.counters["request_answer_class_dumps"] += 1
    elif path == "ctor":
        m = DiameterMessage(hdr, objs)
    elif path == "append":
        m = DiameterMessage(hdr)
        for o in objs:
            m.append(o)
    elif path == "extend":
        m = DiameterMessage(hdr)
        m.extend(objs)
    elif path == "avps=":
        m = DiameterMessage(hdr)
        m.avps = objs
    else:
        k = r.randrange(0, len(objs) + 1)
        m = DiameterMessage(hdr, objs[:k])
        m.extend(objs[k:])
    acc.counters["message_dumps"] += 1
    got = m.dump()
    depth = max([lavp_depth(s.lavp) for s in specs] or [0])
    sig = "msg/%s/n%d/d%d/%s" % (path, min(len(specs), 6), depth, "".join(sorted({("g" if s.cls is None else "k") for s in specs})))
    wit = {"header": f, "path": path, "avps": [s.describe() for s in specs], "got": got.hex(), "want": want.hex()}
    if got != want:
        off = first_diff(got, want)
        key = "message-length-field" if 1 <= off < 4 else ("message-header" if off < 20 else "message-avps")
        acc.violation(key, "message (%s, %d AVPs): dump() differs from the reference at offset %d" % (path, len(specs), off), wit)
    else:
        if int.from_bytes(got[1:4], "big") != len(got) or len(got) % 4:
            acc.violation("message-wire-postcondition", "Message Length %d, size %d" % (int.from_bytes(got[1:4], "big"), len(got)), wit)
        if bytes(m) != want or len(m) != len(want) or m.copy().dump() != want or (type(m) is DiameterMessage and DiameterMessage.convert(m).dump() != want):
            acc.violation("message-view-differs", "bytes()/len()/copy()/convert() disagree with dump()", wit)
        if (m + m) != want + want:
            acc.violation("message-view-differs", "__add__ disagrees with dump()", wit)
    if got == want:
        mutate_message_and_check(acc, g, m, lmsg, specs, objs, path)
    if specs:
        acc.case(sig)
    else:
        acc.evaluations += 1
    acc.sample({"message": {"path": path, "n_avps": len(specs), "wire": want.hex()[:96]}}, limit=2)


def mutate_message_and_check(acc, g, m, lmsg, specs, objs, path):
    """A message stays 'built through the public API' when it is changed through it: after each container operation the
    serialisation must again be the reference encoding of the (mirrored) content."""
    r = g.rng
    lavps = list(lmsg.avps)
    objs = list(objs)
    specs = list(specs)
    trace = []
    # a generic copy made with DiameterMessage.convert() is a message of its own: it serialises like its source, and changing
    # either of the two afterwards leaves the other one's serialisation alone
    watch = watch_wire = None
    if r.random() < 0.4:
        from bromelia.base import DiameterMessage
        want0 = R.encode(R.LMsg(lmsg.version, lmsg.flags, lmsg.code, lmsg.app_id, lmsg.hbh, lmsg.e2e, lavps))
        try:
            conv = DiameterMessage.convert(m)
            got0 = conv.dump()
        except BaseException as ex:
            acc.observe("message-convert-rejected:%s" % type(ex).__name__)
            conv = None
        if conv is not None:
            acc.counters["converted_copies"] += 1
            if got0 != want0 or m.dump() != want0:
                which = "copy" if got0 != want0 else "source"
                acc.violation("message-convert-changes-%s" % which, "message built by %s: after DiameterMessage.convert() the %s serialises differently from the reference" % (path, which),
                              {"path": path, "got": (got0 if got0 != want0 else m.dump()).hex()[:800], "want": want0.hex()[:800]})
                return
            watch, watch_wire = (conv, want0) if r.random() < 0.5 else (m, want0)
            if watch is m:
                m = conv
            path = path + ("+convert(source mutated)" if watch is conv else "+convert(copy mutated)")
    for _ in range(r.randrange(1, 4)):
        op = r.choice(["append", "pop", "setitem", "update_avp", "extend", "avps=", "cleanup"])
        try:
            if op == "append":
                sp = g.any_avp(maxdepth=3)
                o = sp.build()
                m.append(o)
                lavps.append(sp.lavp); objs.append(o); specs.append(sp)
            elif op == "extend":
                sps = [g.any_avp(maxdepth=2) for _ in range(r.randrange(1, 3))]
                os_ = [sp.build() for sp in sps]
                m.extend(os_)
                lavps += [sp.lavp for sp in sps]; objs += os_; specs += sps
            elif op == "avps=":
                sps = [g.any_avp(maxdepth=2) for _ in range(r.randrange(0, 3))]
                if sps and r.random() < 0.5:
                    sps.append(g.avp(sps[0].cls) if sps[0].cls else g.generic())       # a second AVP of the same name
                os_ = [sp.build() for sp in sps]
                m.avps = os_
                lavps = [sp.lavp for sp in sps]; objs = os_; specs = sps
            elif op == "cleanup":
                m.cleanup()
                lavps = []; objs = []; specs = []
            elif op == "pop" and objs:
                i = r.randrange(len(objs))
                key = next((k for k, v in m.__dict__.items() if v is objs[i] and k != "_avps"), None)
                if key is None:
                    continue
                m.pop(key)
                del lavps[i]; del objs[i]; del specs[i]
            elif op == "setitem" and objs:
                i = r.randrange(len(objs))
                sp = g.any_avp(maxdepth=3)
                o = sp.build()
                m[i] = o
                lavps[i] = sp.lavp; objs[i] = o; specs[i] = sp
            elif op == "update_avp" and objs:
                # the singular update: a new object of the same dictionary class, same slot, same name; flags and vendor kept
                cand = [i for i, sp in enumerate(specs) if sp.cls is not None and sp.members is None]
                if not cand:
                    continue
                i = r.choice(cand)
                key = next((k for k, v in m.__dict__.items() if v is objs[i] and k != "_avps"), None)
                if key is None:
                    continue
                sp = g.avp(specs[i].cls)
                if sp.members is not None:
                    continue
                m.update_avp(key, sp.arg)
                objs[i] = m.__dict__[key]
                lavps[i] = sp.lavp; specs[i] = sp
            else:
                continue
        except BaseException as ex:
            acc.observe("message-mutation-rejected:%s:%s" % (op, type(ex).__name__))
            return
        trace.append(op)
        acc.counters["message_mutations"] += 1
        want = R.encode(R.LMsg(lmsg.version, lmsg.flags, lmsg.code, lmsg.app_id, lmsg.hbh, lmsg.e2e, lavps))
        try:
            got = m.dump()
        except BaseException as ex:
            acc.violation("message-dump-raises-after-%s" % op, "dump() raised %r after %s" % (ex, trace), {"trace": trace, "path": path})
            return
        if got != want:
            off = first_diff(got, want)
            key = "message-length-field" if 1 <= off < 4 else ("message-header" if off < 20 else "message-avps")
            acc.violation("%s-after-%s" % (key, op), "message built by %s then %s: dump() differs from the reference at offset %d" % (path, trace, off),
                          {"trace": trace, "path": path, "got": got.hex()[:800], "want": want.hex()[:800]})
            return
        if watch is not None:
            try:
                other = watch.dump()
            except BaseException as ex:
                other = repr(ex).encode()
            if other != watch_wire:
                off = first_diff(other, watch_wire)
                key = "message-length-field" if 1 <= off < 4 else ("message-header" if off < 20 else "message-avps")
                acc.violation("%s-of-the-other-message-after-%s" % (key, op), "message built by %s then %s on one of the two: the other one's dump() now differs from the reference at offset %d" % (path, trace, off),
                              {"trace": trace, "path": path, "got": other.hex()[:800], "want": watch_wire.hex()[:800]})
                return
            acc.counters["converted_copy_checks"] += 1


def run_batch(b):
    acc = harness.Acc()
    g = Gen(b["seed"])
    per_class = {}
    if b["kind"] == "classes":
        for cname in b["classes"]:
            cls = g.by_name[cname]
            ok = 0
            row = g.rd["avps"][cname]
            for i in range(b["n"]):
                residue = i % 4 if row["type"] in ("OctetString", "UTF8String", "DiameterIdentity") else None
                spec = g.avp(cls, residue=residue)
                acc.case(spec.sig + "/d%d" % lavp_depth(spec.lavp))
                o = check_avp(acc, spec)
                if o is not None:
                    ok += 1
                    mutate_and_check(acc, g, spec, o)
                if i == 0:
                    acc.sample({"avp": spec.describe()}, limit=2)
            per_class[cname] = ok
        acc.extra["per_class_ok"] = per_class
    elif b["kind"] == "generic":
        for i in range(b["n"]):
            spec = g.generic(residue=i % 4)
            acc.case(spec.sig)
            o = check_avp(acc, spec)
            if o is not None:
                mutate_and_check(acc, g, spec, o)
        for i in range(b["n"] // 2):
            check_header(acc, g)
    elif b["kind"] == "deep":
        # generic nesting beyond the dictionary's natural depth: Failed-AVP / Proxy-Info style containers by bytes
        from bromelia.avps import FailedAvpAVP
        for i in range(b["n"]):
            inner = g.any_avp(maxdepth=5).lavp
            for d in range(g.rng.randrange(1, 5)):
                inner = R.LAvp(279, 0x40, None, [inner] + ([g.generic().lavp] if g.rng.random() < 0.5 else []))
            want = R.encode_avp(inner)
            acc.counters["avp_dumps"] += 1
            try:
                got = FailedAvpAVP(R.avp_data(inner)).dump()
            except BaseException as ex:
                acc.observe("in-domain-value-rejected:FailedAvpAVP-deep:%s" % type(ex).__name__)
                continue
            acc.case("deep/d%d" % lavp_depth(inner))
            if got != want:
                acc.violation("avp-encoding-deep-nesting", "Failed-AVP nested to depth %d: dump() differs at %d" % (
                    lavp_depth(inner), first_diff(got, want)), {"expect": inner.to_json(), "got": got.hex()})
    elif b["kind"] == "messages":
        for i in range(b["n"]):
            check_message(acc, g, b["maxavps"])
    return acc


def main(tier, seed):
    t0 = time.time()
    q = tier == "quick"
    names = sorted({c.__name__ for c in discover.avp_classes()})
    batches = []
    n = 40 if q else 6000
    for i in range(0, len(names), 7):
        batches.append({"kind": "classes", "classes": names[i:i + 7], "n": n, "seed": seed * 10007 + i})
    for i in range(4 if q else 48):
        batches.append({"kind": "generic", "n": 1500 if q else 12000, "seed": seed * 10007 + 5000 + i})
        batches.append({"kind": "messages", "n": 500 if q else 8000, "maxavps": 8, "seed": seed * 10007 + 6000 + i})
        batches.append({"kind": "deep", "n": 300 if q else 4000, "seed": seed * 10007 + 7000 + i})
    acc = harness.run_workers("checks.c01_encoding", "run_batch", batches, 1500)
    if not q:
        # the repository's own tests as a workload: every typed message they dump must be framed correctly
        harness.run_suite_with_monitors(acc, ("dump-framing",))
    per = acc.extra.pop("per_class_ok", {})
    zero = [c for c in names if not per.get(c)]
    if zero:
        acc.inconclusive.append("classes with no successfully built instance: %s" % zero[:10])
    return harness.finish(PROP, tier, seed, "exploration", acc, RULE,
                          ["default flags/code/vendor per class come from the vendored refdict.json (frozen, reviewed)",
                           "typed message classes are covered by C09 with the same oracle",
                           "in-domain values the library rejects with an exception are observed, not judged here (C10)"],
                          t0, extra_cov={"classes_covered": len(names) - len(zero), "classes_total": len(names)},
                          require_counters=("avp_dumps", "header_dumps", "message_dumps", "request_answer_class_dumps", "post_construction_mutations", "message_mutations", "converted_copy_checks", "header_flag_ops"))


def replay(w):
    print("witness:", str(w["witness"])[:2000])
    print("replay: rebuild the AVP described under witness.spec with bvm.gen.Spec and compare dump() to witness.want")
    return 1
