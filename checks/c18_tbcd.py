"""C18 - TBCD digit encoding round-trips for every digit string (total-function sweep)."""
import itertools
import random
import time

from bvm import harness
from bvm.refcodec import ref_tbcd

PROP = "C18"
RULE = ("all digit strings of length 1..L (L=5 quick, 7 thorough) as str, and as int when there is "
        "no leading zero, plus random strings of length 8..20; oracle: independent nibble-swap "
        "TBCD, decode(encode(s)) == s; MsisdnAVP/StnSrAVP data for numbers of 1..16 digits; "
        "distinct = distinct (string, interface) pairs; non-trivial = length >= 2")


def _classify(s, got):
    if got is None and len(s) % 2 == 0:
        return "even-length-returns-none"
    return None


def check_string(acc, enc, dec, s):
    want = ref_tbcd(s)
    try:
        e = enc(s)
    except BaseException as ex:  # library errors derive from BaseException
        acc.violation("encode-raises", "encode_to_tbcd(%r) raised %r" % (s, ex), {"s": s, "iface": "str"})
        return
    acc.counters["encode_calls"] += 1
    if e != want:
        acc.violation(_classify(s, e) or "encoding-mismatch",
                      "encode_to_tbcd(%r) = %r, 3GPP rule gives %r" % (s, e, want), {"s": s, "iface": "str"})
        return
    try:
        d = dec(e)
    except BaseException as ex:
        acc.violation("decode-raises", "decode_from_tbcd(%r) raised %r" % (e, ex), {"s": s, "iface": "str"})
        return
    acc.counters["decode_calls"] += 1
    if d != s:
        acc.violation(_classify(s, d) or "roundtrip-mismatch",
                      "decode_from_tbcd(encode_to_tbcd(%r)) = %r" % (s, d), {"s": s, "iface": "str"})
    if s[0] != "0" or s == "0":         # the number as an int (zero included: it is the one int that is falsy)
        try:
            e2 = enc(int(s))
        except BaseException as ex:
            acc.violation("encode-raises", "encode_to_tbcd(%d) raised %r" % (int(s), ex), {"s": s, "iface": "int"})
            return
        acc.evaluations += 1
        if e2 != want:
            acc.violation(_classify(s, e2) or "encoding-mismatch",
                          "encode_to_tbcd(%d) = %r, 3GPP rule gives %r" % (int(s), e2, want),
                          {"s": s, "iface": "int"})


def check_avp(acc, classes, s):
    want = bytes.fromhex(ref_tbcd(s))
    for cls in classes:
        for arg in (int(s), s):
            acc.evaluations += 1
            try:
                avp = cls(arg)
                data = avp.data
            except BaseException as ex:
                key = "avp-even-length-unbuildable" if len(s) % 2 == 0 else "avp-raises"
                acc.violation(key, "%s(%r) raised %s: %s" % (cls.__name__, arg, type(ex).__name__, ex),
                              {"s": s, "iface": cls.__name__, "argtype": type(arg).__name__})
                continue
            acc.counters["avp_builds"] += 1
            if data != want:
                acc.violation("avp-data-mismatch", "%s(%r).data = %s, want %s" % (
                    cls.__name__, arg, data.hex(), want.hex()),
                    {"s": s, "iface": cls.__name__, "argtype": type(arg).__name__})
            else:
                dumped = avp.dump()
                # vendor AVP: 12-byte header then data then zero padding
                if dumped[12:12 + len(want)] != want or int.from_bytes(dumped[5:8], "big") != 12 + len(want):
                    acc.violation("avp-wire-mismatch", "%s(%r).dump() = %s" % (cls.__name__, arg, dumped.hex()),
                                  {"s": s, "iface": cls.__name__})


def run_batch(b):
    from bromelia.utils import encode_to_tbcd, decode_from_tbcd
    from bromelia.avps import MsisdnAVP, StnSrAVP
    acc = harness.Acc()
    distinct = 0
    if b["kind"] == "exhaustive":
        # strings of length L starting with each prefix in b["prefixes"]
        L = b["L"]
        for pre in b["prefixes"]:
            rest = L - len(pre)
            for tail in itertools.product("0123456789", repeat=rest):
                s = pre + "".join(tail)
                acc.evaluations += 1
                check_string(acc, encode_to_tbcd, decode_from_tbcd, s)
                distinct += (1 + (s[0] != "0")) if L >= 2 else 0
        acc.sample({"exhaustive_len": L, "prefixes": b["prefixes"][:3]})
    elif b["kind"] == "random":
        rng = random.Random(b["seed"])
        seen = set()
        for _ in range(b["n"]):
            L = rng.randrange(8, 21)
            s = "".join(rng.choice("0123456789") for _ in range(L))
            if s in seen:
                continue
            seen.add(s)
            acc.evaluations += 1
            check_string(acc, encode_to_tbcd, decode_from_tbcd, s)
            distinct += 1 + (s[0] != "0")
        acc.sample({"random": sorted(seen)[:3]})
    elif b["kind"] == "avp":
        rng = random.Random(b["seed"])
        seen = set()
        for L in range(1, 17):
            for _ in range(b["per_len"]):
                s = rng.choice("123456789") + "".join(rng.choice("0123456789") for _ in range(L - 1))
                if s in seen:
                    continue
                seen.add(s)
                check_avp(acc, (MsisdnAVP, StnSrAVP), s)
                distinct += 4
        # every number 0..1999 as int and as str (zero and one-digit numbers included)
        for v in range(0, 2000):
            check_avp(acc, (MsisdnAVP, StnSrAVP), str(v))
            check_string(acc, encode_to_tbcd, decode_from_tbcd, str(v))
            distinct += 4
        acc.sample({"avp_numbers": sorted(seen, key=len)[:4]})
    acc.extra["distinct_judged"] = distinct
    return acc


def main(tier, seed):
    t0 = time.time()
    maxlen = 5 if tier == "quick" else 8
    batches = []
    for L in range(1, maxlen + 1):
        if L <= 4:
            batches.append({"kind": "exhaustive", "L": L, "prefixes": [""]})
        else:
            plen = 2 if L >= 6 else 1
            pres = ["".join(p) for p in itertools.product("0123456789", repeat=plen)]
            chunk = max(1, len(pres) // (16 if L < 7 else 50))
            if L >= 8:
                pres = ["".join(p) for p in itertools.product("0123456789", repeat=3)]
                chunk = 5
            for i in range(0, len(pres), chunk):
                batches.append({"kind": "exhaustive", "L": L, "prefixes": pres[i:i + chunk]})
    nrand = 40000 if tier == "quick" else 2000000
    for i in range(8):
        batches.append({"kind": "random", "seed": seed * 1000 + i, "n": nrand // 8})
    batches.append({"kind": "avp", "seed": seed, "per_len": 20 if tier == "quick" else 4000})
    acc = harness.run_workers("checks.c18_tbcd", "run_batch", batches, 900)
    distinct = acc.extra.pop("distinct_judged", 0)
    acc.sigs = set()
    return harness.finish(PROP, tier, seed, "exploration", acc, RULE,
                          ["strings with a leading zero are judged through the str interface only "
                           "(an int cannot carry them); the AVP classes are judged for numbers without a leading zero"],
                          t0, extra_cov={"distinct_nontrivial": distinct,
                                         "range_exhaustive": "digit strings of length 1..%d" % maxlen},
                          exhaustive=True, require_counters=("encode_calls", "decode_calls", "avp_builds"))


def replay(w):
    from bromelia.utils import encode_to_tbcd, decode_from_tbcd
    from bromelia.avps import MsisdnAVP, StnSrAVP
    acc = harness.Acc()
    s = w["witness"]["s"]
    check_string(acc, encode_to_tbcd, decode_from_tbcd, s)
    if s[0] != "0" and len(s) <= 16:
        check_avp(acc, (MsisdnAVP, StnSrAVP), s)
    for v in acc.violations:
        print("VIOLATION property=C18 replay=<this>", v["what"])
    return 1 if acc.violations else 0
