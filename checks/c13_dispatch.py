"""C13 - each request reaches its registered handler and always gets exactly one answer.

Dispatch trace checker over a real Bromelia object with in-process workers (bvm/appnode.py)."""
import random
import time

from bvm import harness, refcodec as R, refdict as RD, discover, msggen, vsched, appnode
from bvm.gen import Gen

PROP = "C13"
RULE = ("route tables of 1..4 applications x 1..4 command codes (the same code under several applications) x requests from "
        "the typed classes of those applications and generic requests x handler outcomes {typed answer, generic answer, None, "
        "int, str, list, the answer class itself, a request object, ValueError/KeyError/RuntimeError with a message, exceptions without "
        "arguments, with odd arguments, of an application-defined class, a failed assert}; oracle: route-table model (exactly the handler registered "
        "for (Application-ID, command code) runs), exactly one message reaches the connection layer per request, the fallback "
        "is DIAMETER_UNABLE_TO_COMPLY with the request's identifiers/Session-Id, local origin and the requester as destination; "
        "distinct = (route table shape, request class, outcome)")

LIB_OF = {"S6a": "etsi_3gpp_s6a", "Gx": "etsi_3gpp_gx", "Rx": "etsi_3gpp_rx", "SWx": "etsi_3gpp_swx", "Gy": "etsi_3gpp_gy", "S13": "etsi_3gpp_s13"}
OUTCOMES = ["typed-answer", "generic-answer", "none", "int", "request-object", "ValueError", "KeyError", "RuntimeError",
            "bare-exception", "exception-odd-args", "custom-exception", "assertion", "str-result", "list-result", "answer-class-not-instance",
            "answer-with-other-app-id"]


class HandlerFailure(Exception):
    """an application's own exception type, with a constructor and a __str__ of its own"""

    def __init__(self, code, detail=None):
        Exception.__init__(self)            # args stays empty, as in many hand-written exception classes
        self.code, self.detail = code, detail

    def __str__(self):
        return "failure %s (%s)" % (self.code, self.detail)


def N_app_request_for(app_id):
    from bvm import node as N
    lm = N.app_request(4242, app=int.from_bytes(app_id, "big") if isinstance(app_id, bytes) else app_id, code=8388001, dest_host=appnode.LOCAL_HOST, dest_realm=appnode.LOCAL_REALM)
    return lm


def execute(acc, g, case):
    from bromelia.base import DiameterAnswer, DiameterRequest, DiameterMessage
    from bromelia.avps import SessionIdAVP, ResultCodeAVP, OriginHostAVP, OriginRealmAVP
    rng = g.rng
    sched = vsched.Sched(seed=case["seed"], strategy="rr", max_steps=200_000, wall_s=60)
    wit = {"case": case}
    h = None
    try:
        h = appnode.AppHarness(sched, case["apps"])
        app = h.app
        table = RD.command_table()
        classes = {(l, c.__name__): c for l, c in discover.message_classes()}
        calls = []
        routes = {}
        # ---- route table: for every app, some of its request classes; all handlers record (app, code)
        for name in [n for entry in case["apps"] for n in entry.split("+")]:
            lib = LIB_OF[name]
            reqs = [(k, v) for k, v in table.items() if k[0] == lib and v["request"] and k in classes]
            rng.shuffle(reqs)
            for (lib_, cname), row in reqs[:case["codes_per_app"]]:
                app_id = row["app_id"].to_bytes(4, "big")
                code = row["code"].to_bytes(3, "big")
                key = (name, cname)
                routes[key] = {"app_id": app_id, "code": code, "lib": lib, "cls": classes[(lib, cname)],
                               "answer_cls": classes.get((lib, row["pair"] + "Answer"))}

                def make(key):
                    def handler(request):
                        calls.append(key)
                        return outcome_for[0](request, key)
                    handler.__name__ = "route_%s_%s" % key
                    return handler
                app.route(application_id=app_id, command_code=code)(make(key))
        # a second Bromelia application object in the same process registers handlers for the very same pairs afterwards: a route
        # table belongs to its application, so the requests dispatched below (on the first one) must never reach these
        import os as _os
        other = h.BB.Bromelia(config_file=_os.path.join(h.tmp, "config.yaml"))
        for key, rt in routes.items():
            def decoy(request, key=key):
                calls.append(("other-application-object",) + key)
                return None
            decoy.__name__ = "decoy_%s_%s" % key
            other.route(application_id=rt["app_id"], command_code=rt["code"])(decoy)
        acc.counters["second_application_object"] += 1
        outcome_for = [None]
        n_dispatch = 0
        for key, rt in sorted(routes.items()):
            for outcome in case["outcomes"]:
                # ---- build the request
                sid = ("peer.remote.example;%d;%d" % (rng.randrange(2 ** 32), rng.randrange(2 ** 32))).encode()
                try:
                    plan_ = msggen.make_plan(g, rt["lib"], rt["cls"], subset="random", session_id=sid)
                    if n_dispatch % 3 == 1:
                        # what a peer puts into its identity is the peer's business: octets that are no UTF-8, blanks, nothing
                        # DNS would accept - the requester is still the destination of the fallback answer, octet for octet
                        for arg, val in (("origin_host", rng.choice([b"hss\xff\xfe01.remote.example", b"h\xe9te.remote.example", b"peer 7.remote.example", b"\x00\x01"])),
                                         ("origin_realm", rng.choice([b"remote.example", b"r\xffalm.example"]))):
                            if arg in plan_.kwargs:
                                plan_.kwargs[arg] = val
                        acc.counters["requests_with_odd_identity_octets"] += 1
                    request = plan_.build()
                except BaseException as ex:
                    acc.observe("request-construction-rejected:%s" % type(ex).__name__)
                    continue
                has_sid = request.has_avp("session_id_avp")
                has_origin = request.has_avp("origin_host_avp") and request.has_avp("origin_realm_avp")
                req_ids = (request.header.get_application_id(), request.header.get_hop_by_hop(), request.header.get_end_to_end())
                req_origin = (request.origin_host_avp.data, request.origin_realm_avp.data) if has_origin else None

                def produce(req, key, outcome=outcome, rt=rt):
                    if outcome == "typed-answer" and rt["answer_cls"] is not None:
                        a = msggen.make_plan(g, rt["lib"], rt["answer_cls"], subset="none").build()
                        if not a.has_avp("session_id_avp"):
                            a.append(SessionIdAVP(b"handler;0;0"))
                        return a
                    if outcome in ("typed-answer", "generic-answer", "answer-with-other-app-id"):
                        # (an answer object built for another application - e.g. a typed class shared between interfaces - must
                        # still leave as the answer to *this* request, through this request's connection)
                        other_ids = [r2["app_id"] for r2 in routes.values() if r2["app_id"] != rt["app_id"]] + [4, 16777999]
                        a = DiameterAnswer(command_code=rt["code"], application_id=rt["app_id"] if outcome != "answer-with-other-app-id" else other_ids[0])
                        a.append(SessionIdAVP(b"handler;1;1"))
                        a.append(ResultCodeAVP(2001))
                        a.append(OriginHostAVP(appnode.LOCAL_HOST))
                        a.append(OriginRealmAVP(appnode.LOCAL_REALM))
                        return a
                    if outcome == "none":
                        return None
                    if outcome == "int":
                        return 42
                    if outcome == "request-object":
                        return req
                    if outcome == "str-result":
                        return "DIAMETER_SUCCESS"
                    if outcome == "list-result":
                        return [DiameterAnswer(command_code=rt["code"], application_id=rt["app_id"])]
                    if outcome == "answer-class-not-instance":
                        return DiameterAnswer
                    if outcome == "bare-exception":
                        raise rng.choice([RuntimeError, NotImplementedError, KeyError, StopIteration, TimeoutError])      # no arguments at all
                    if outcome == "exception-odd-args":
                        raise ValueError(*rng.choice([(), (None,), (1, 2, 3), (b"\xff\xfe",), ({"a": 1},), ("\u00e9\u4e2d {0} %s {",)]))
                    if outcome == "custom-exception":
                        raise HandlerFailure(5012, detail=req)
                    if outcome == "assertion":
                        assert req is None
                    raise {"ValueError": ValueError, "KeyError": KeyError, "RuntimeError": RuntimeError}[outcome]("handler failed")
                outcome_for[0] = produce
                del calls[:]
                before = len(h.sent())
                w = dict(wit, route=list(key), outcome=outcome, request=request.dump().hex()[:600])
                thr = app.create_message_thread(request)
                finished = sched.run_until(lambda: thr.done, 10.0, "dispatch")
                sched.run_until(lambda: False, 0.01, "drain")
                n_dispatch += 1
                acc.evaluations += 1
                acc.counters["dispatches"] += 1
                if any("+" in e and key[0] in e.split("+") for e in case["apps"]):
                    acc.counters["dispatches_on_a_connection_serving_several_applications"] += 1
                acc.sigs.add(harness.sig_hash("%d/%d/%s/%s/%s" % (len(case["apps"]), case["codes_per_app"], key[1], outcome, has_sid)))
                new = [m for _, m in h.sent()[before:]]
                own = [m for _, m in h.sent(key[0])]
                if judged_later := (len(new) == 1 and (not own or own[-1] is not new[0])):
                    acc.violation("answer-sent-through-another-applications-worker", "the answer for %s left through a different connection" % (key,), w)
                    return
                judged = has_sid and has_origin
                if not finished:
                    acc.violation("dispatch-never-finishes:%s" % outcome, "the dispatch task for %s/%s is still running: %s" % (key, outcome, sched.blocked_report()), w)
                    return
                if calls != [key]:
                    acc.violation("wrong-handler-dispatched", "handlers %s ran for a request registered under %s" % (calls, key), w)
                    return
                if not judged:
                    acc.observe("request-without-session-id-or-origin:%d-messages-sent" % len(new))
                    continue
                if len(new) != 1:
                    acc.violation("request-answered-%d-times:%s" % (len(new), outcome), "%d messages reached the connection layer for one request (%s, outcome %s)" % (len(new), key, outcome), w)
                    return
                try:
                    lm = R.decode(new[0].dump())[0]
                except BaseException as ex:
                    acc.violation("sent-answer-not-well-formed", "%r" % (ex,), w)
                    return
                sids = [a.value for a in lm.avps if a.code == 263 and a.vendor is None]
                if lm.flags & 0x80 or (lm.app_id, lm.hbh, lm.e2e) != req_ids or sids != [sid]:
                    acc.violation("answer-identity-wrong:%s" % outcome, "sent (flags %#x, app %d, hbh %d, e2e %d, session ids %r) for request %r / %r" % (
                        lm.flags, lm.app_id, lm.hbh, lm.e2e, sids, req_ids, sid), w)
                    return
                if outcome not in ("typed-answer", "generic-answer", "answer-with-other-app-id"):
                    rc = [a.value for a in lm.avps if a.code == 268 and a.vendor is None]
                    oh = [a.value for a in lm.avps if a.code == 264]
                    orr = [a.value for a in lm.avps if a.code == 296]
                    dh = [a.value for a in lm.avps if a.code == 293]
                    dr = [a.value for a in lm.avps if a.code == 283]
                    cfg = h.stubs[key[0]].config        # the connection that serves this application
                    want = ([(5012).to_bytes(4, "big")], [cfg["LOCAL_NODE_HOSTNAME"].encode()], [cfg["LOCAL_NODE_REALM"].encode()], [req_origin[0]], [req_origin[1]])
                    if (rc, oh, orr, dh, dr) != want:
                        acc.violation("fallback-answer-content:%s" % outcome, "fallback carries result %r origin %r/%r destination %r/%r; expected %r" % (rc, oh, orr, dh, dr, want), w)
                        return
                    acc.counters["fallbacks_judged"] += 1
                else:
                    acc.counters["answers_judged"] += 1
        # a handler registered *again* for a pair that has already served requests (the application swaps an implementation at
        # run time): the handler registered for the pair is now the new one, and only that one runs
        for key, rt in sorted(routes.items())[:3]:
            def newer(request, key=key, rt=rt):
                calls.append(("re-registered",) + key)
                a = DiameterAnswer(command_code=rt["code"], application_id=rt["app_id"])
                a.append(SessionIdAVP(b"handler;2;2"))
                a.append(ResultCodeAVP(2002))
                a.append(OriginHostAVP(appnode.LOCAL_HOST))
                a.append(OriginRealmAVP(appnode.LOCAL_REALM))
                return a
            newer.__name__ = "route2_%s_%s" % key
            app.route(application_id=rt["app_id"], command_code=rt["code"])(newer)
            try:
                request = msggen.make_plan(g, rt["lib"], rt["cls"], subset="none", session_id=b"peer.remote.example;9;9").build()
            except BaseException:
                continue
            outcome_for[0] = lambda req, key: None
            del calls[:]
            before = len(h.sent())
            thr = app.create_message_thread(request)
            sched.run_until(lambda: thr.done, 10.0, "dispatch-after-re-registration")
            sched.run_until(lambda: False, 0.01, "drain")
            acc.counters["dispatches_after_re_registration"] += 1
            acc.evaluations += 1
            if calls != [("re-registered",) + key]:
                acc.violation("wrong-handler-dispatched:after-re-registration", "handlers %s ran for a request whose pair %s was registered again with another handler" % (calls, key),
                              dict(wit, route=list(key)))
                return
            new = [m for _, m in h.sent()[before:]]
            if request.has_avp("session_id_avp") and len(new) != 1:
                acc.violation("request-answered-%d-times:after-re-registration" % len(new), "%d messages for one request after re-registration of %s" % (len(new), key), dict(wit, route=list(key)))
                return
        # a request for a command nobody registered under a served application: the statement presupposes a registered
        # handler, so what the library does here (nothing reaches the peer) is recorded, not judged
        if routes:
            key, rt = sorted(routes.items())[0]
            lm = N_app_request_for(rt["app_id"])
            before = len(h.sent())
            nd = len(sched.deaths)
            thr = app.create_message_thread(DiameterMessage.load(R.encode(lm))[0])
            sched.run_until(lambda: thr.done, 5.0, "unregistered-dispatch")
            died = sched.deaths[nd:]
            acc.observe("request-for-unregistered-command:%d-messages-sent:%s" % (len(h.sent()) - before, died[0]["type"] if died else "no-exception"))
            del sched.deaths[nd:]
        acc.sample({"apps": case["apps"], "routes": [list(k) for k in routes][:6], "dispatches": n_dispatch}, limit=3)
    except vsched.DeadlockError as ex:
        acc.violation("deadlock-in-dispatch", "deadlock: %s" % ex, dict(wit, stacks=sched.stacks()))
    except vsched.WallClock as ex:
        acc.inconclusive.append("%s (case %r)" % (ex, case))
    except vsched.StepBudget as ex:
        acc.violation("spin-in-dispatch", "%s; %s" % (ex, sched.blocked_report()), wit)
    finally:
        if h is not None:
            h.cleanup()
        sched.shutdown()


def execute_concurrent(acc, case):
    """Several requests in their dispatch threads at the same time (random-walk schedule with line-level preemption inside
    bromelia.py, one thread optionally parked at its k-th line): every request must still get exactly one answer with its
    own identifiers, from exactly its own handler invocation."""
    import bromelia.bromelia as BB
    from bromelia.base import DiameterAnswer, DiameterMessage
    from bromelia.avps import SessionIdAVP, ResultCodeAVP, OriginHostAVP, OriginRealmAVP
    from bvm import node as N
    rng = random.Random(case["seed"])
    sched = vsched.Sched(seed=case["seed"], strategy="rw", p=case["p"], max_steps=300_000, wall_s=60)
    wit = {"case": case}
    h = lp = None
    try:
        h = appnode.AppHarness(sched, ["S6a", "Gx"])
        app = h.app
        plan, handled = {}, []

        def make(code):
            def handler(request):
                k = N.marker_of(R.decode(request.dump())[0])
                handled.append((code, k))
                out = plan[k]
                if out == "raise":
                    raise ValueError("handler failure %d" % k)
                if out == "none":
                    return None
                a = DiameterAnswer(command_code=code, application_id=0)
                a.append(SessionIdAVP(b"handler;0;%d" % k))
                a.append(ResultCodeAVP(2001 if out == "answer" else 5012))
                a.append(OriginHostAVP(appnode.LOCAL_HOST))
                a.append(OriginRealmAVP(appnode.LOCAL_REALM))
                return a
            handler.__name__ = "conc_%d" % code
            return handler
        for app_id in (16777251, 16777238):
            for code in (316, 272):
                app.route(application_id=app_id.to_bytes(4, "big"), command_code=code.to_bytes(3, "big"))(make(code))
        lp = vsched.LinePreemption(sched, files={BB.__file__}).__enter__()
        n = case["n"]
        reqs = {}
        for k in range(1, n + 1):
            plan[k] = rng.choice(["answer", "answer", "answer-5012", "raise", "none"])
            lm = N.app_request(k, app=rng.choice([16777251, 16777238]), code=rng.choice([316, 272]), host="peer0.remote.example", realm="remote.example",
                               dest_host=appnode.LOCAL_HOST, dest_realm=appnode.LOCAL_REALM)
            lm.hbh, lm.e2e = 0x7000 + k, 0x9000 + k * 3
            reqs[k] = lm
        if case.get("park") is not None:
            sched.parks.append({"task": "recv_request_1", "nth": case["park"], "timeout": 0.5,
                                "release": lambda: all(t.done or t.why == "parked" for t in sched.tasks if t.name.startswith("recv_request_"))})
        thrs = [app.create_message_thread(DiameterMessage.load(R.encode(reqs[k]))[0]) for k in range(1, n + 1)]
        finished = sched.run_until(lambda: all(t.done for t in thrs), 10.0, "dispatches")
        sched.run_until(lambda: False, 0.01, "drain")
        acc.counters["concurrent_dispatch_executions"] += 1
        if sched.parked_at:
            acc.counters["dispatch_thread_parked"] += 1
        sent = [m for _, m in h.sent()]
        got = {}
        for m in sent:
            lm = R.decode(m.dump())[0]
            got.setdefault((lm.hbh, lm.e2e), []).append(lm)
        wit.update({"plan": plan, "handled": handled, "sent": [(lm.hbh, lm.e2e) for v in got.values() for lm in v], "schedule": sched.schedule_hash(),
                    "choices": sched.choices[:3000]})
        if not finished:
            acc.violation("dispatch-never-finishes:concurrent", "dispatch tasks still running: %s" % sched.blocked_report(), wit)
            return
        for k, lm in reqs.items():
            mine = got.get((lm.hbh, lm.e2e), [])
            if len(mine) != 1:
                acc.violation("request-answered-%d-times:concurrent-%s" % (len(mine), plan[k]), "request %d (%s) got %d answers while %d requests were dispatched at once" % (k, plan[k], len(mine), n), wit)
                return
            a = mine[0]
            sid = [x.value for x in a.avps if x.code == 263]
            want_sid = [x.value for x in lm.avps if x.code == 263]
            if a.flags & 0x80 or a.app_id != lm.app_id or a.code != lm.code or sid != want_sid:
                acc.violation("answer-identity-wrong:concurrent", "request %d: answer flags %#x app %d code %d session %r" % (k, a.flags, a.app_id, a.code, sid), wit)
                return
            if plan[k] in ("raise", "none"):
                rc = [x.value for x in a.avps if x.code == 268]
                if rc != [(5012).to_bytes(4, "big")]:
                    acc.violation("fallback-answer-content:concurrent", "request %d (%s): fallback Result-Code %r" % (k, plan[k], rc), wit)
                    return
        if sorted(x[1] for x in handled) != sorted(reqs):
            acc.violation("wrong-handler-dispatched", "handler invocations %s for requests 1..%d dispatched at once" % (sorted(handled), n), wit)
            return
        acc.counters["answers_judged"] += n
    except vsched.DeadlockError as ex:
        acc.violation("deadlock-in-dispatch", "deadlock: %s" % ex, dict(wit, stacks=sched.stacks()))
    except vsched.WallClock as ex:
        acc.inconclusive.append("%s (case %r)" % (ex, case))
    except vsched.StepBudget as ex:
        acc.violation("spin-in-dispatch", "%s; %s" % (ex, sched.blocked_report()), wit)
    finally:
        if lp is not None:
            lp.__exit__()
        if h is not None:
            h.cleanup()
        cov = sched.coverage()
        sched.shutdown()
    acc.evaluations += 1
    acc.sigs.add(harness.sig_hash("conc/%d/%s" % (case["n"], cov["schedule"])))


def run_batch(b):
    acc = harness.Acc()
    if b.get("real"):
        # the application layer as shipped: worker process, Manager queues, real loopback (bvm/realapp.py)
        from bvm import realnet
        realnet.run_cases(acc, b["real"])
        return acc
    g = Gen(b["seed"])
    for case in b["cases"]:
        if case.get("concurrent"):
            execute_concurrent(acc, case)
        else:
            execute(acc, g, case)
    return acc


def main(tier, seed):
    t0 = time.time()
    q = tier == "quick"
    rng = random.Random(seed)
    names = list(LIB_OF)
    cases = []
    for i in range(48 if q else 8000):
        k = rng.choice([1, 2, 3, 4])
        apps = rng.sample(names, k)
        if k > 1 and i % 3 == 0:
            # one connection entry that serves several applications (the peer talks Gx and Rx over one connection): "A+B"
            j = rng.randrange(2, k + 1)
            apps = ["+".join(apps[:j])] + apps[j:]
        cases.append({"seed": seed * 211 + i, "apps": apps, "codes_per_app": rng.choice([1, 2, 4]),
                      "outcomes": OUTCOMES if rng.random() < 0.5 else rng.sample(OUTCOMES, 4)})
    for i in range(40 if q else 3000):
        cases.append({"concurrent": True, "seed": seed * 223 + i, "n": rng.choice([2, 3, 4, 6]), "p": rng.choice([0.05, 0.2, 0.5])})
    for k in range(0, 60, 2 if q else 1):
        cases.append({"concurrent": True, "seed": seed * 229 + k, "n": 3, "p": 0.02, "park": k})
    nb = 16 if q else 64
    batches = [{"cases": cases[i::nb], "seed": seed * 17 + i} for i in range(nb)]
    for i in range(3 if q else 40):
        # one execution per worker process: Bromelia.run() leaves a Manager and a worker process behind that a second run in the
        # same interpreter cannot share
        batches.append({"real": [{"kind": "app", "seed": seed * 389 + i * 23, "judge": "dispatch"}]})
    acc = harness.run_workers("checks.c13_dispatch", "run_batch", batches, 3000)
    return harness.finish(PROP, tier, seed, "exploration", acc, RULE,
                          ["workers are in-process (fake manager, never started as processes); the connection layer below a Worker is a recording stub",
                           "requests without Session-Id or origin AVPs are dispatched and observed, not judged (the fallback cannot be built for them)",
                           "a handler raising one of the library's BaseException-derived errors is outside the statement's 'standard exception' and is not generated"],
                          t0, require_counters=("dispatches", "dispatches_after_re_registration", "fallbacks_judged", "answers_judged", "real_loopback_ok", "concurrent_dispatch_executions", "dispatch_thread_parked"))


def replay(w):
    print("witness:", str(w["witness"])[:2000])
    return 1
