"""C17 - result-code class predicates agree with the numeric family for every code.

Total-function sweep: oracle n // 1000; multiples of 1000 are not judged."""
import random
import time

from bvm import harness

PROP = "C17"
RULE = ("every code n in 0..65535 (exhaustive) plus 32-bit boundaries and random values is fed to "
        "the five integer predicates and, on an answer object carrying Result-Code n, to the five "
        "answer-object predicates; oracle: predicate_f(n) == (n // 1000 == f); multiples of 1000 "
        "are not judged; a case is distinct per (n, interface) and non-trivial when n % 1000 != 0")


def _ranges(lo, hi, parts):
    step = (hi - lo + parts - 1) // parts
    return [(a, min(a + step, hi)) for a in range(lo, hi, step)]


def run_batch(b):
    from bromelia import utils
    from bromelia.base import DiameterAnswer
    from bromelia.avps import ResultCodeAVP, OriginHostAVP, OriginRealmAVP
    acc = harness.Acc()
    ints = [utils.is_result_code_family_1xxx, utils.is_result_code_family_2xxx,
            utils.is_result_code_family_3xxx, utils.is_result_code_family_4xxx,
            utils.is_result_code_family_5xxx]
    objs = [utils.is_1xxx_informational, utils.is_2xxx_success, utils.is_3xxx_failure,
            utils.is_4xxx_failure, utils.is_5xxx_failure]
    codes = list(range(b["lo"], b["hi"])) + b.get("extra", [])
    distinct = 0
    for n in codes:
        judged = n % 1000 != 0
        fam = n // 1000
        # integer interface
        got = [bool(p(n)) for p in ints]
        acc.evaluations += 1
        acc.counters["int_predicate_calls"] += 5
        if judged:
            distinct += 1
            want = [fam == f for f in range(1, 6)]
            if got != want:
                acc.violation("int-predicate-family-mismatch",
                              "integer predicates for %d gave %s, family rule says %s" % (n, got, want),
                              {"n": n, "interface": "int", "got": got, "want": want})
            if sum(got) > 1:
                acc.violation("int-predicate-two-families", "code %d in two families" % n,
                              {"n": n, "interface": "int", "got": got})
        # answer-object interface
        # the answer around the Result-Code varies with n (header flags E/P/T, application, other AVPs, position of the
        # Result-Code, an answer decoded from bytes): the classification may depend on the code alone
        shape = n % 14
        ans = DiameterAnswer(command_code=(280, 272, 316, 8388620)[n % 4], application_id=(0, 4, 16777251)[n % 3])
        if shape in (1, 5):
            ans.header.set_error_bit(True)
        if shape in (2, 5):
            ans.append(OriginHostAVP("host.example"))
        ans.append(ResultCodeAVP(n))
        if shape in (3, 5, 6):
            ans.append(OriginRealmAVP("example"))
        if shape == 4:
            ans.header.flags = bytes([ans.header.get_flags() | 0x10])          # T bit
        if shape in (8, 9, 10):
            # an Experimental-Result beside the Result-Code (what a handler's answer looks like before it is decorated, or
            # what a peer may send): the predicates read the Result-Code, whatever family the experimental code is in
            from bromelia.avps import ExperimentalResultAVP, VendorIdAVP, ExperimentalResultCodeAVP
            exp = (5420, 2001, 4181, 1001, 3002, 5012)[(n // 14) % 6]
            er = ExperimentalResultAVP([VendorIdAVP(10415), ExperimentalResultCodeAVP(exp)])
            if shape == 9:
                ans.pop("result_code_avp")
                ans.append(er)
                ans.append(ResultCodeAVP(n))
            else:
                ans.append(er)
            if shape == 10:
                from bromelia.base import DiameterMessage
                ans = DiameterMessage.load(ans.dump())[0]
        if shape in (12, 13):
            # another vendor's AVP that happens to have code 268 in that vendor's space (V flag, Vendor-Id), ahead of the
            # Result-Code or behind it, carrying a number of another family: it is not the Result-Code
            from bromelia.base import DiameterAVP, DiameterMessage
            other = (2001, 5012, 3002, 4001, 1001, 7)[(n // 14) % 6]
            foreign = DiameterAVP(code=268, vendor_id=(10415, 193, 8164)[(n // 14) % 3], flags=0x80, data=other.to_bytes(4, "big"))
            if shape == 12:
                ans.pop("result_code_avp")
                ans.append(foreign)
                ans.append(ResultCodeAVP(n))
            else:
                ans.append(foreign)
            if (n // 14) % 2:
                ans = DiameterMessage.load(ans.dump())[0]
        if shape == 11:
            # a typed answer class of an application library, Result-Code given to the constructor
            from bromelia.lib.etsi_3gpp_s6a import ULA, CLA
            from bromelia.lib.ietf_rfc6733 import DWA
            ans = (lambda: ULA(result_code=n.to_bytes(4, "big")), lambda: CLA(result_code=n.to_bytes(4, "big")),
                   lambda: DWA(result_code=n.to_bytes(4, "big")))[(n // 14) % 3]()
        if shape == 7:
            from bromelia.base import DiameterMessage
            ans = DiameterMessage.load(ans.dump())[0]
        acc.counters["answer_shapes_%d" % shape] += 1
        got = [bool(p(ans)) for p in objs]
        acc.evaluations += 1
        acc.counters["obj_predicate_calls"] += 5
        if judged:
            distinct += 1
            want = [fam == f for f in range(1, 6)]
            if got != want:
                acc.violation("obj-predicate-family-mismatch",
                              "answer-object predicates for Result-Code %d gave %s, family rule says %s"
                              % (n, got, want),
                              {"n": n, "interface": "obj", "got": got, "want": want})
            if sum(got) > 1:
                acc.violation("obj-predicate-two-families", "code %d in two families" % n,
                              {"n": n, "interface": "obj", "got": got})
    # the same answer object classified again after its Result-Code has been changed (data rewritten in place, or the AVP
    # replaced): the verdict must follow the code the object carries now, not the one it carried when first asked
    import random as _r
    rr = _r.Random(len(codes) * 7919 + (codes[0] if codes else 0))
    pool = [c for c in codes if c % 1000] or [2001]
    for _ in range(min(400, len(pool))):
        first, second = rr.choice(pool), rr.choice(pool)
        ans = DiameterAnswer(command_code=272, application_id=4)
        ans.append(ResultCodeAVP(first))
        before = [bool(p(ans)) for p in objs]
        how = rr.choice(["data", "replace", "copy"])
        if how == "data":
            ans.result_code_avp.data = second.to_bytes(4, "big")
        elif how == "replace":
            ans.pop("result_code_avp")
            ans.append(ResultCodeAVP(second))
        else:
            ans = ans.copy()
            ans.result_code_avp.data = second.to_bytes(4, "big")
        got = [bool(p(ans)) for p in objs]
        want = [second // 1000 == f for f in range(1, 6)]
        acc.evaluations += 1
        acc.counters["reclassified_after_change"] += 1
        if got != want:
            acc.violation("obj-predicate-stale-after-result-code-change",
                          "answer first carried %d, then %d (%s): predicates gave %s, family rule says %s" % (first, second, how, got, want),
                          {"n": second, "first": first, "how": how, "interface": "obj-reused"})
    acc.extra["distinct_judged"] = distinct
    if codes:
        acc.sample({"n": codes[len(codes) // 2], "int": [bool(p(codes[len(codes) // 2])) for p in ints]})
    return acc


def main(tier, seed):
    t0 = time.time()
    rng = random.Random(seed)
    batches = [{"lo": a, "hi": b} for a, b in _ranges(0, 65536, 16)]
    extra = set()
    for k in list(range(0, 70)) + [4294, 4294967]:
        for d in (-2, -1, 1, 2, 499, 999):
            v = k * 1000 + d
            if 65536 <= v < 2 ** 32:
                extra.add(v)
    extra.update([2 ** 31 - 1, 2 ** 31, 2 ** 31 + 1, 2 ** 32 - 1, 2 ** 32 - 2, 65536, 65537, 99999, 100001])
    nrand = 20000 if tier == "quick" else 3000000
    while len(extra) < nrand:
        extra.add(rng.randrange(65536, 2 ** 32))
    extra = sorted(extra)
    parts = 16
    for i in range(parts):
        batches.append({"lo": 0, "hi": 0, "extra": extra[i::parts]})
    acc = harness.run_workers("checks.c17_result_code_families", "run_batch", batches, 600)
    acc.sigs = set()  # distinct count is measured per (n, interface): cases are unique by construction
    distinct = acc.extra.pop("distinct_judged", 0)
    rc = harness.finish(PROP, tier, seed, "exploration", acc, RULE,
                        ["ResultCodeAVP(n) carries n unchanged (checked by C10/C01)",
                         "answer-object predicates are read through has_avp('result_code_avp') on answers of fourteen shapes (a vendor-specific AVP with code 268 before/after the Result-Code, E/T flag set, other AVPs before/after, other commands and applications, decoded from bytes, an Experimental-Result before/after the Result-Code, typed answer classes)"],
                        t0, extra_cov={"distinct_nontrivial": distinct,
                                       "range_exhaustive": "0..65535 through both interfaces"},
                        exhaustive=True, require_counters=("int_predicate_calls", "obj_predicate_calls", "reclassified_after_change"))
    return rc


def replay(w):
    from bromelia import utils
    n = w["witness"]["n"]
    b = {"lo": n, "hi": n + 1}
    acc = run_batch(b)
    for v in acc.violations:
        print("VIOLATION property=C17 replay=<this>", v["what"])
    return 1 if acc.violations else 0
