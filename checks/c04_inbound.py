"""C04 - inbound messages are delivered once, in order, however the stream is fragmented.

History checker (sent vs delivered) over executions of a real node under the deterministic scheduler and
the substituted transport.  Messages carry unique ids (Hop-by-Hop = index, marker AVP)."""
import random
import time

from bvm import harness, refcodec as R, node as N, vsched

PROP = "C04"
RULE = ("message sequences (1..40 application requests/answers from the bare 20-byte header to 70 KB, uniquely marked, interleaved with DWRs) x "
        "segmentations of their concatenated encoding (whole, every single split position of short streams, one byte at a "
        "time, header-internal splits, random splits, coalescing) x recv-size scripts x schedules (round robin; random "
        "walk with line-level preemption in transport/setup/statemachine, p in {0.02,0.1,0.3}); oracle: exactly-once, "
        "in-order, byte-identical delivery through get_message(), DWAs in the order of the DWRs; distinct = distinct "
        "(segmentation class, schedule hash); plus real-loopback executions (nothing substituted: real threads, epoll, "
        "kernel TCP on 127.0.0.1): 120 marked requests of 0..20 KB per execution under five segmentation modes, the same oracle, "
        "followed by a close whose thread and socket release is checked")


class Raw:
    """a correctly framed message the decoder refuses (an AVP that claims more bytes than the message has): it is no message
    of the sequence, the ones around it are"""
    def __init__(self, seq):
        body = (263).to_bytes(4, "big") + b"\x40" + (64).to_bytes(3, "big") + b"abcd"
        self.wire = b"\x01" + (20 + len(body)).to_bytes(3, "big") + b"\xc0" + (272).to_bytes(3, "big") + (4).to_bytes(4, "big") + (0x66000000 + seq).to_bytes(4, "big") * 2 + body


def encode(m):
    return m.wire if isinstance(m, Raw) else R.encode(m)


def build_sequence(rng, n, big=False, bad=0.0):
    msgs, kinds = [], []
    seq = 1
    for i in range(n):
        c = rng.random()
        if bad and rng.random() < bad:
            msgs.append(Raw(seq))
            kinds.append(("BAD", None))
        if c < 0.2:
            m = N.dwr(hbh=1000 + seq, e2e=2000 + seq)
            kinds.append(("DWR", 1000 + seq))
        else:
            size = rng.choice([0, 0, 1, 2, 3, 17, 100, 1000]) if not big else rng.choice([0, 5000, 70000, 30000])
            if c < 0.28 and not big:
                # the smallest well-formed message: the 20-byte header alone (identified by its Hop-by-Hop)
                m = R.LMsg(1, rng.choice([0xc0, 0x40, 0x80, 0x00]), rng.choice([316, 272, 8388620]), rng.choice([16777251, 4]), seq, 0x30000000 + seq, [])
            elif c < 0.7:
                m = N.app_request(seq, size=size, dest_host=rng.choice([N.LOCAL[0], None]), dest_realm=rng.choice([N.LOCAL[1], None]))
            else:
                m = N.app_answer(seq, size=size)
            kinds.append(("APP", seq))
            if not big and rng.random() < 0.25:
                # what is inside an application message is the application's business: text AVPs whose octets are no UTF-8,
                # empty values, AVPs nobody knows - the message is delivered as it came
                # (dictionary AVPs with their dictionary flags: what happens to other flag bits on decode is C02's recorded finding)
                code = rng.choice([1, 281, 269, 282, 99991])
                m.avps.append(N.avp(code, rng.choice([b"caf\xe9", b"\xff\xfe", b"", b"\x80abc", b"alice@example"]), flags={1: 0x40, 281: 0x00, 269: 0x00, 282: 0x40}.get(code, rng.choice([0x40, 0x00]))))
        msgs.append(m)
        if kinds[-1][0] == "APP" and rng.random() < 0.06:
            # the peer sends the very same message again (a retransmission): it is a message of the sequence like any other
            msgs.append(m)
            kinds.append(kinds[-1])
        seq += 1
    return msgs, kinds


def segmentation(rng, total, boundaries, mode):
    """-> list of chunk sizes"""
    if mode == "whole":
        return [total]
    if mode == "byte":
        return [1] * total
    if mode.startswith("split@"):
        k = int(mode[6:])
        return [k, total - k] if 0 < k < total else [total]
    if mode == "per-message":
        out, prev = [], 0
        for b in boundaries:
            out.append(b - prev)
            prev = b
        return out
    if mode == "header-internal":
        # cut inside the 20-byte header of some messages
        cuts = sorted({min(total - 1, max(1, b0 + rng.randrange(1, 20))) for b0 in [0] + boundaries[:-1] if rng.random() < 0.7})
        out, prev = [], 0
        for c in cuts:
            if c > prev:
                out.append(c - prev)
                prev = c
        out.append(total - prev)
        return [x for x in out if x > 0]
    # random
    out, left = [], total
    while left > 0:
        k = min(left, rng.choice([1, 2, 3, 4, 5, 7, 19, 20, 21, 40, 100, 500, 4096, 70000]))
        out.append(k)
        left -= k
    return out


def execute(acc, case):
    rng = random.Random(case["seed"])
    msgs, kinds = build_sequence(rng, case["n"], case.get("big", False), case.get("bad", 0.0))
    encs = [encode(m) for m in msgs]
    nbad = len([k for k in kinds if k[0] == "BAD"])
    if nbad:
        acc.counters["refused_messages_in_the_sequences"] += nbad
    stream = b"".join(encs)
    boundaries, t = [], 0
    for e in encs:
        t += len(e)
        boundaries.append(t)
    chunks = segmentation(rng, len(stream), boundaries, case["seg"])
    sc = N.Scenario(seed=case["seed"], strategy=case["strategy"], p=case.get("p", 0.1), role=case["role"], apps=[16777251],
                    lines=case["strategy"] != "rr", max_steps=case.get("max_steps", 600_000), transport=case.get("transport", "TCP"))
    delivered = []
    t_inject = [0.0]
    if case.get("transport") == "SCTP":
        acc.counters["sctp_executions"] += 1      # SctpClient/SctpServer over a fake pysctp module (bvm/vnet.py)
    wit = {"case": case, "chunks": chunks[:60], "kinds": kinds, "stream_len": len(stream)}
    with sc:
        try:
            if not sc.open():
                acc.inconclusive.append("node did not reach Open in the set-up phase (case %r)" % (case,))
                return
            sc.read_emitted()
            # the step budget follows the number of segments the node has to read one by one
            sc.sched.max_steps = max(sc.sched.max_steps, sc.sched.steps + 400_000 + 600 * len(chunks or []))
            if case.get("recv_cap"):
                cap = case["recv_cap"]
                sc.net.read_len = lambda sock, avail, n: min(avail, cap)

            def consumer():
                while True:
                    m = sc.node.get_message()
                    if m is None:
                        return
                    delivered.append(m)
            if case.get("park_worker") is not None:
                # park sweep of the library's own threads: the receive worker (or the transport thread) stands at its k-th source
                # line while the next bytes arrive and are taken in by the other one
                who, k = case["park_worker"]
                funcs = {"read", "_read", "_set_selector_events_mask"} if who == "transport_layer_thread" else {"recv_message_from_queue", "_split_complete_messages"}
                sc.sched.parks.append({"task": who, "nth": k, "funcs": funcs, "timeout": 0.05, "release": lambda: not sc.node_sock.rx and sc.sched.now > t_inject[0] > 0})
            if case.get("park") is not None:
                # park sweep (DESIGN 2.5b): the application thread is descheduled at its n-th source line inside get_message()
                # until the state machine has handed over every message of the sequence (or one virtual second has passed)
                sc.sched.parks.append({"task": "consumer", "nth": case["park"], "timeout": 1.0,
                                       "release": lambda: len([c for c in sc.consumed if c[0] == "Open"]) >= len(kinds) - nbad})
            sc.sched.spawn("consumer", consumer)
            expected_app = [k for k in kinds if k[0] == "APP"]
            expected_dwr = [k[1] for k in kinds if k[0] == "DWR"]
            t_inject[0] = sc.sched.now + 1e-9
            if case.get("gap"):
                # a stalled sender: after each segment nothing arrives for longer than the receive worker's idle poll (1 s)
                from bvm import scen
                scen.slow_ticker(0.002)
                acc.counters["executions_with_silence_between_segments"] += 1
            sc.inject(stream, chunks=chunks, settle=case.get("settle", True), gap=case.get("gap"))
            done = lambda: len(delivered) >= len(expected_app) and len([c for c in sc.consumed if c[0] == "Open"]) >= len(kinds) - nbad
            t_last_byte = sc.sched.now
            ok = sc.sched.run_until(done, 3.0 + 0.01 * len(kinds), "delivery")
            sc.sched.run_until(lambda: False, 0.01, "grace")     # a little longer: duplicates would show up now
            acc.counters["executions"] += 1
            if sc.sched.parked_at and case.get("park_worker"):
                acc.counters["library_thread_parked_while_bytes_arrive"] += 1
                acc.extra.setdefault("parked_at", {})
                kk = "%s@%s" % sc.sched.parked_at[0]
                acc.extra["parked_at"][kk] = acc.extra["parked_at"].get(kk, 0) + 1
            elif sc.sched.parked_at:
                acc.counters["consumer_parked_while_messages_arrive"] += 1
                acc.extra.setdefault("parked_at", {})
                acc.extra["parked_at"][sc.sched.parked_at[0][1]] = acc.extra["parked_at"].get(sc.sched.parked_at[0][1], 0) + 1
            got = []
            for m in delivered:
                try:
                    lm = R.decode(m.dump())[0]
                    mk = N.marker_of(lm)
                    got.append((mk if mk is not None else lm.hbh, m.dump()))
                except BaseException as ex:
                    got.append((None, b""))
            want = [(k[1], encs[i]) for i, k in enumerate(kinds) if k[0] == "APP"]
            attribution = attribute(sc, chunks, boundaries)
            wit.update({"delivered_markers": [g[0] for g in got][:60], "expected_markers": [w[0] for w in want][:60],
                        "attribution": attribution, "deaths": sc.sched.deaths, "schedule": sc.sched.schedule_hash(),
                        "choices": sc.sched.choices[:3000], "state": sc.state()})
            if sc.sched.deaths:
                d = sc.sched.deaths[0]
                acc.violation("task-died:%s:%s" % (d["task"], d["type"]), "task %s died with %s (segmentation %s): %s" % (
                    d["task"], d["exc"], case["seg"], d["traceback"][-300:]), wit)
            elif [g[0] for g in got] != [w[0] for w in want]:
                gm, wm = [g[0] for g in got], [w[0] for w in want]
                if len(gm) < len(wm) and gm == wm[:len(gm)] if gm else True:
                    kind = "lost"
                elif sorted(x for x in gm if x is not None) == sorted(wm) and gm != wm:
                    kind = "reordered"
                elif len(set(gm)) < len(gm):
                    kind = "duplicated"
                else:
                    kind = "lost-or-garbled"
                key = "inbound-%s" % kind
                if attribution["split_messages"] and kind in ("lost", "lost-or-garbled"):
                    key += "-when-message-split-across-reads"
                acc.violation(key, "delivered %s, sent %s (segmentation %s, %d chunks, strategy %s)" % (
                    gm[:20], wm[:20], case["seg"], len(chunks), case["strategy"]), wit)
            elif any(g[1] != w[1] for g, w in zip(got, want)):
                acc.violation("inbound-not-byte-identical", "a delivered message re-serialises differently", wit)
            else:
                acc.counters["messages_delivered"] += len(got)
            # base-protocol messages: consumed by the state machine in the order sent (observed where the state
            # machine takes messages off its queue; whether the DWAs reach the wire is C05/C07's business)
            sent_order = [(280, 1000 + 0) for _ in ()]
            sent_ids = [k[1] for k in kinds if k[0] != "BAD"]
            consumed_ids = [c[3] for c in sc.consumed if c[0] == "Open" and c[3] in set(sent_ids)]
            if not sc.sched.deaths and ok and consumed_ids != sent_ids:
                acc.violation("state-machine-consumption-out-of-order", "state machine consumed %s, peer sent %s" % (consumed_ids[:30], sent_ids[:30]), wit)
            dwas = [m for m in sc.read_emitted() if N.name_of(m) == "DWA"]
            if [m.hbh for m in dwas] != expected_dwr:
                acc.observe("dwa-missing-or-out-of-order(outbound path, see C05)")
            acc.counters["dwr_answered"] += len(dwas)
            acc.counters["consumption_order_checked"] += 1
        except vsched.DeadlockError as ex:
            acc.violation("deadlock", "deadlock: %s" % ex, dict(wit, stacks=sc.sched.stacks()))
        except vsched.WallClock as ex:
            acc.inconclusive.append("%s (case %r)" % (ex, case))
        except vsched.StepBudget as ex:
            # bounded progress: the unchanged code delivers within milliseconds of the last byte; a second of virtual time
            # and hundreds of thousands of steps later the messages are not coming any more
            if "t_last_byte" in dir() and sc.sched.now - t_last_byte > 1.0 and len(delivered) < len([k for k in kinds if k[0] == "APP"]):
                acc.violation("inbound-lost", "only %d of %d messages delivered %.1f virtual s after the last byte (step budget reached; segmentation %s, strategy %s)" % (
                    len(delivered), len([k for k in kinds if k[0] == "APP"]), sc.sched.now - t_last_byte, case["seg"], case["strategy"]),
                    dict(wit, deaths=sc.sched.deaths, schedule=sc.sched.schedule_hash(), choices=sc.sched.choices[:3000]))
            else:
                acc.inconclusive.append("step budget exhausted: %s (case %r)" % (ex, case))
        except N.NonTerminatingDecode as ex:
            acc.violation("decoder-non-terminating-in-worker", str(ex), wit)
        cov = sc.coverage()
    acc.evaluations += 1
    acc.sigs.add(harness.sig_hash("%s/%s/%s/%s" % (case["seg"].split("@")[0], case["strategy"], case.get("transport"), cov["schedule"])))
    acc.counters["steps"] += cov["steps"]
    acc.counters["switches"] += cov["switches"]
    acc.counters["line_events"] += cov["line_events"]
    acc.counters["recv_chunks"] += cov["recv_chunks"]
    acc.extra.setdefault("segmentations", {})
    k = case["seg"].split("@")[0]
    acc.extra["segmentations"][k] = acc.extra["segmentations"].get(k, 0) + 1
    acc.sample({"case": case, "chunks": chunks[:12], "kinds": kinds[:8]}, limit=3)


def execute_twin(acc, case):
    """Two node objects in one process (same local identity, one connection each): each peer sends its own sequence, fragmented
    its own way, the two streams interleaved on the virtual network; optionally one application reads late.  Each application
    must receive exactly its own peer's sequence."""
    rng = random.Random(case["seed"])
    sc = N.Scenario(seed=case["seed"], strategy=case["strategy"], p=case.get("p", 0.1), role="client", apps=[16777251],
                    lines=case["strategy"] != "rr", max_steps=1_500_000, wall_s=120)
    wit = {"case": case}
    with sc:
        try:
            if not sc.open():
                acc.inconclusive.append("node A did not open (%r)" % (case,))
                return
            tw = N.Scenario.twin_of(sc)
            if not tw.open():
                acc.inconclusive.append("node B did not open (%r)" % (case,))
                return
            sides = []
            for tag, s_, base in (("A", sc, 0), ("B", tw, 500000)):
                msgs = []
                for i in range(case["n"]):
                    seq = base + i + 1
                    msgs.append(N.app_request(seq, size=rng.choice([0, 3, 100]), dest_host=N.LOCAL[0], dest_realm=N.LOCAL[1]) if rng.random() < 0.6 else N.app_answer(seq, size=rng.choice([0, 17])))
                encs = [R.encode(m) for m in msgs]
                stream = b"".join(encs)
                bounds, t = [], 0
                for e in encs:
                    t += len(e)
                    bounds.append(t)
                sides.append({"tag": tag, "sc": s_, "want": [base + i + 1 for i in range(case["n"])], "stream": stream,
                              "chunks": segmentation(rng, len(stream), bounds, case["seg"]), "got": []})

            def consumer(side):
                def run():
                    while True:
                        m = side["sc"].node.get_message()
                        if m is None:
                            return
                        lm = R.decode(m.dump())[0]
                        mk = N.marker_of(lm)
                        side["got"].append(mk if mk is not None else lm.hbh)
                return run
            order = list(sides)
            if case.get("b_reads_first"):
                order.reverse()
            late = case.get("late_reader")
            for side in order[:1 if late else 2]:
                sc.sched.spawn("consumer_" + side["tag"], consumer(side))
            first, second = (sides if rng.random() < 0.5 else sides[::-1])
            first["sc"].inject(first["stream"], chunks=first["chunks"], settle=False)
            second["sc"].inject(second["stream"], chunks=second["chunks"], settle=False)
            if late:
                # the other application starts reading only after everything has arrived
                sc.sched.run_until(lambda: False, 0.3, "late-reader")
                sc.sched.spawn("consumer_" + order[1]["tag"], consumer(order[1]))
            sc.sched.run_until(lambda: all(len(x["got"]) >= len(x["want"]) for x in sides), 3.0 + 0.02 * case["n"], "twin-delivery")
            sc.sched.run_until(lambda: False, 0.01, "grace")
            acc.counters["executions"] += 1
            acc.counters["twin_node_executions"] += 1
            wit.update({x["tag"]: {"got": x["got"][:40], "want": x["want"][:40]} for x in sides})
            wit["deaths"] = sc.sched.deaths
            if sc.sched.deaths:
                d = sc.sched.deaths[0]
                acc.violation("task-died:%s:%s" % (d["task"], d["type"]), "task %s died with %s: %s" % (d["task"], d["exc"], d["traceback"][-300:]), wit)
            else:
                for x in sides:
                    if x["got"] != x["want"]:
                        foreign = [g for g in x["got"] if g not in x["want"]]
                        key = "inbound-delivered-to-another-nodes-application" if foreign or len(x["got"]) < len(x["want"]) and any(
                            g in x["want"] for y in sides if y is not x for g in y["got"]) else "inbound-lost" if len(x["got"]) < len(x["want"]) else "inbound-reordered-or-duplicated"
                        acc.violation(key, "two nodes in one process: application %s received %s, its peer sent %s" % (x["tag"], x["got"][:20], x["want"][:20]), wit)
                        break
                else:
                    acc.counters["messages_delivered"] += sum(len(x["got"]) for x in sides)
        except vsched.DeadlockError as ex:
            acc.violation("deadlock", "deadlock: %s" % ex, dict(wit, stacks=sc.sched.stacks()))
        except vsched.WallClock as ex:
            acc.inconclusive.append("%s (case %r)" % (ex, case))
        except vsched.StepBudget as ex:
            acc.inconclusive.append("step budget exhausted: %s (case %r)" % (ex, case))
        cov = sc.coverage()
    acc.evaluations += 1
    acc.sigs.add(harness.sig_hash("twin/%s/%s/%s" % (case["seg"], case["strategy"], cov["schedule"])))
    acc.counters["steps"] += cov["steps"]


def attribute(sc, chunks, boundaries):
    """Which messages had their bytes split across two reads of the node (from the recv-chunk log)."""
    pos, cuts = 0, set()
    for c in sc.net.recv_chunks:
        pos += c
        cuts.add(pos)
    split = [i for i, b in enumerate(boundaries) if any((boundaries[i - 1] if i else 0) < c < b for c in cuts)]
    return {"split_messages": split[:30], "recv_chunks": sc.net.recv_chunks[:60]}


def run_batch(b):
    acc = harness.Acc()
    if b.get("real"):
        # real threads, real kernel sockets on 127.0.0.1, nothing substituted (bvm/realnet.py)
        from bvm import realnet
        realnet.run_cases(acc, b["real"])
        return acc
    for case in b["cases"]:
        if case.get("twin"):
            execute_twin(acc, case)
        else:
            execute(acc, case)
    return acc


def plan(tier, seed):
    q = tier == "quick"
    rng = random.Random(seed)
    cases = []
    # exhaustive single split positions of a short 2-message stream (round robin)
    short_total = 2 * 120
    for k in range(1, short_total, 1 if not q else 7):
        cases.append({"seed": seed * 1000 + 1, "n": 2, "seg": "split@%d" % k, "strategy": "rr", "role": "client"})
    modes = ["whole", "byte", "per-message", "header-internal", "random", "random"]
    nrand = 120 if q else 6000
    for i in range(nrand):
        strat = rng.choice(["rr", "rw", "rw", "rw"])
        cases.append({"seed": seed * 100003 + i, "n": rng.choice([1, 2, 3, 5, 8, 20, 40]) if not q else rng.choice([1, 2, 3, 5, 8]),
                      "seg": rng.choice(modes), "strategy": strat, "p": rng.choice([0.02, 0.1, 0.3]),
                      "role": rng.choice(["client", "server"]), "settle": rng.random() < 0.7,
                      "recv_cap": rng.choice([None, None, 1, 7, 64, 4096]), "transport": rng.choice(["TCP", "TCP", "TCP", "SCTP"]),
                      "bad": (0.0, 0.0, 0.2)[i % 3]})
    for nth in range(0, 70 if q else 160):
        for seg in (["whole"] if q else ["whole", "per-message", "header-internal"]):
            cases.append({"seed": seed * 31 + nth, "n": 5, "seg": seg, "strategy": "rw", "p": 0.02, "role": ("client", "server")[nth % 2],
                          "settle": False, "park": nth})
    for who, span in (("recv_message_monitor", 60), ("transport_layer_thread", 50)):
        for k in range(0, span, 2 if q else 1):
            for seg in (["per-message"] if q else ["per-message", "header-internal", "whole"]):
                cases.append({"seed": seed * 37 + k, "n": 5, "seg": seg, "strategy": "rw", "p": 0.02, "role": ("client", "server")[k % 2],
                              "settle": False, "park_worker": [who, k]})
    for i in range(10 if q else 200):
        # silence longer than the receive worker's idle poll in the middle of a message (few segments, long gaps)
        cases.append({"seed": seed * 991 + i, "n": rng.choice([1, 2, 3]), "seg": rng.choice(["header-internal", "split@%d" % rng.randrange(1, 100), "split@%d" % rng.randrange(100, 220), "per-message"]),
                      "strategy": ("rr", "rw")[i % 2], "p": 0.02, "role": ("client", "server")[i % 2], "settle": True, "gap": rng.choice([1.1, 1.6, 2.7]),
                      "max_steps": 3_000_000})
    for i in range(3 if q else 60):
        # long backlogs: hundreds of messages coalesced into one or a few reads, far more than the state machine takes per tick
        cases.append({"seed": seed * 983 + i, "n": rng.choice([150, 300, 600]), "seg": rng.choice(["whole", "whole", "random"]), "strategy": rng.choice(["rr", "rw"]),
                      "p": 0.02, "role": rng.choice(["client", "server"]), "settle": False, "max_steps": 3_000_000})
    for i in range(24 if q else 400):
        # a second node object in the same process, with its own connection, peer and application
        cases.append({"twin": True, "seed": seed * 4057 + i, "n": rng.choice([1, 2, 5, 12]), "seg": rng.choice(["whole", "per-message", "random", "header-internal"]),
                      "strategy": rng.choice(["rr", "rw"]), "p": rng.choice([0.02, 0.1]), "late_reader": i % 2 == 0, "b_reads_first": i % 4 < 2})
    for i in range(2 if q else 40):
        cases.append({"seed": seed * 977 + i, "n": 4, "big": True, "seg": rng.choice(["whole", "random"]), "strategy": "rr",
                      "role": "client", "recv_cap": rng.choice([None, 65536])})
    return cases


def main(tier, seed):
    t0 = time.time()
    cases = plan(tier, seed)
    nb = 16 if tier == "quick" else 64
    batches = [{"cases": cases[i::nb]} for i in range(nb)]
    nreal, per = (4, 1) if tier == "quick" else (16, 6)
    for i in range(nreal):
        batches.append({"real": [{"kind": "inbound", "seed": seed * 7919 + i * 101 + j, "role": ("client", "server")[(i + j) % 2]} for j in range(per)]})
    for i in range(2 if tier == "quick" else 12):
        batches.append({"real": [{"kind": "twin-inbound", "seed": seed * 6143 + i * 11 + j} for j in range(1 if tier == "quick" else 4)]})
    acc = harness.run_workers("checks.c04_inbound", "run_batch", batches, 3000)
    harness.require_vnet_fidelity(acc)
    return harness.finish(PROP, tier, seed, "exploration", acc, RULE,
                          ["vnet is a model of Linux TCP sockets (fidelity self-test in tools/selftest_vnet.py); schedules are explored at "
                           "synchronisation-operation and source-line granularity of transport.py/setup.py/statemachine.py",
                           "bounded progress: all messages delivered within 3 virtual seconds after the last byte (the unchanged code needs milliseconds)"],
                          t0, require_counters=("executions", "steps", "recv_chunks", "real_loopback_ok", "consumer_parked_while_messages_arrive", "library_thread_parked_while_bytes_arrive", "twin_node_executions", "refused_messages_in_the_sequences", "executions_with_silence_between_segments"))


def replay(w):
    acc = harness.Acc()
    (execute_twin if w["witness"]["case"].get("twin") else execute)(acc, w["witness"]["case"])
    for v in acc.violations:
        print("VIOLATION property=C04 replay=<this>", v["key"], v["what"][:300])
    return 1 if acc.violations else 0
