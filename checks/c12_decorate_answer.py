"""C12 - answers leaving a route carry the request's identity and a correct error flag.

Postcondition monitor on bromelia.bromelia.decorate_answer (the function every routed answer goes
through) and on the message that reaches the connection worker after a route handler returned it (route stage)."""
import random
import time

from bvm import harness, discover, refcodec as R, refdict as RD, msggen
from bvm.gen import Gen

PROP = "C12"
RULE = ("typed request/answer pairs of every command (arguments generated as in C09) and generic pairs; Result-Code "
        "over all 0..65535 on one pair, every code defined in result_codes.py / experimental_result_codes.py on every "
        "pair, random 32-bit codes; Session-Ids of every length residue, longer and shorter than the answer's own; "
        "answers with Experimental-Result, with both, with E pre-set; oracle: request identity + n // 1000 in {3,4,5}; "
        "plus a route stage: a real Bromelia object dispatches requests to handlers that build their answers in five styles (typed class, "
        "generic with own identifiers, on the request's own header, a fresh header carrying the request's identifiers, one answer "
        "object reused); the message handed to the connection worker is judged by the same oracle; "
        "distinct = (pair, result-code family or code, session-id residue, answer shape[, style])")


def defined_codes():
    import bromelia.constants.result_codes as rc
    import bromelia.constants.experimental_result_codes as erc
    out = set()
    for m in (rc, erc):
        for k, v in vars(m).items():
            if k.startswith("DIAMETER_") and isinstance(v, bytes) and len(v) == 4 and "XXX" not in k:
                out.add(int.from_bytes(v, "big"))
    return sorted(out)


def pairs():
    t = RD.command_table()
    classes = {(l, c.__name__): c for l, c in discover.message_classes()}
    out = []
    for (lib, name), row in t.items():
        if row["request"] and (lib, row["pair"] + "Answer") in classes and (lib, name) in classes:
            out.append((lib, classes[(lib, name)], classes[(lib, row["pair"] + "Answer")]))
    return sorted(out, key=lambda x: (x[0], x[1].__name__))


def judge(acc, request, answer, info, wit):
    from bromelia.bromelia import decorate_answer
    from bromelia.base import DiameterAnswer
    req_ids = (request.header.get_application_id(), request.header.get_hop_by_hop(), request.header.get_end_to_end())
    req_sid = request.session_id_avp.data if request.has_avp("session_id_avp") else None
    before = [(type(a).__name__, a.dump()) for a in answer.avps]
    acc.counters["decorate_calls"] += 1
    try:
        out = decorate_answer(answer, request)
    except AttributeError as ex:
        if req_sid is not None and not info["answer_has_sid"]:
            acc.observe("answer-without-session-id-for-request-with-one:AttributeError")
            return
        acc.violation("decorate-raises:AttributeError", "decorate_answer raised %r" % (ex,), wit)
        return
    except BaseException as ex:
        key = "decorate-raises:%s" % type(ex).__name__
        if info.get("e_preset"):
            key = "decorate-raises-when-E-preset"
        acc.violation(key, "decorate_answer raised %s: %s (%s)" % (type(ex).__name__, ex, info), wit)
        return
    judge_out(acc, req_ids, req_sid, out, info, wit, before)


def judge_out(acc, req_ids, req_sid, out, info, wit, before=None):
    """the oracle proper: `out` is the answer as it is sent (returned by decorate_answer, or taken off the worker's send path)"""
    try:
        wire = out.dump()
        lm = R.decode(wire)[0]
    except BaseException as ex:
        acc.violation("decorated-answer-not-well-formed", "dump()/reference decode failed: %r" % (ex,), wit)
        return
    if (lm.app_id, lm.hbh, lm.e2e) != req_ids:
        acc.violation("identity-not-copied", "answer (app, hbh, e2e) = %r, request %r" % ((lm.app_id, lm.hbh, lm.e2e), req_ids), wit)
    if int.from_bytes(wire[1:4], "big") != len(wire) or out.header.get_length() != len(wire):
        acc.violation("message-length-stale", "Message Length %d, serialised size %d (%s)" % (out.header.get_length(), len(wire), info), wit)
    sids = [a for a in lm.avps if a.code == 263 and a.vendor is None]
    if req_sid is not None:
        if len(sids) != 1 or sids[0].value != req_sid:
            acc.violation("session-id-not-copied", "answer Session-Id %r, request %r" % ([s.value for s in sids], req_sid), wit)
    has_rc = [a for a in lm.avps if a.code == 268 and a.vendor is None]
    has_er = [a for a in lm.avps if a.code == 297 and a.vendor is None]
    if has_rc and has_er:
        acc.violation("result-code-alongside-experimental-result", "both Result-Code and Experimental-Result are sent", wit)
    n = info.get("rc")
    if n is not None and not info.get("er") and n % 1000 != 0 and not info.get("e_preset_inconsistent"):
        want = (n // 1000) in (3, 4, 5)
        got = bool(lm.flags & 0x20)
        if got != want:
            acc.violation("error-flag-%s" % ("missing" if want else "spurious"),
                          "Result-Code %d: E flag %r, family rule says %r" % (n, got, want), wit)
        acc.counters["e_flag_judged"] += 1
    if lm.flags & 0x80:
        acc.violation("answer-has-r-flag", "decorated answer carries the R flag", wit)
    if before is None:
        return
    # other AVPs untouched and in order
    after = [(type(a).__name__, a.dump()) for a in out.avps]
    strip = lambda seq: [x for x in seq if x[0] not in ("SessionIdAVP", "ResultCodeAVP")]
    if strip(before) != strip(after):
        acc.violation("other-avps-changed", "AVPs other than Session-Id/Result-Code changed", wit)


def one_case(acc, g, lib, rq, an, rc, shape, sid_len):
    from bromelia.avps import ExperimentalResultAVP, VendorIdAVP, ExperimentalResultCodeAVP, ResultCodeAVP, SessionIdAVP
    r = g.rng
    rparams = [p.name for p in msggen.params_of(rq)]
    aparams = [p.name for p in msggen.params_of(an)]
    sid = None
    if "session_id" in rparams:
        sid = (g.identity() + ";%d;%d" % (r.randrange(2 ** 32), r.randrange(2 ** 32))).encode()
        sid = (sid + b"x" * 64)[:max(sid_len, 5)] if sid_len else sid
    try:
        rplan = msggen.make_plan(g, lib, rq, subset="random", session_id=sid)
        request = rplan.build()
        aplan = msggen.make_plan(g, lib, an, subset="random")
        if "result_code" in aparams:
            if shape in ("rc", "both", "e-preset"):
                aplan.kwargs["result_code"] = rc if r.random() < 0.5 else rc.to_bytes(4, "big")
            elif shape == "er":
                aplan.kwargs["result_code"] = None
        er = None
        if shape in ("er", "both"):
            er = [VendorIdAVP(10415), ExperimentalResultCodeAVP(rc)]
            if "experimental_result" in aparams:
                aplan.kwargs["experimental_result"] = er
            else:
                aplan.kwargs["zz_er"] = ExperimentalResultAVP(er)
        answer = aplan.build()
    except BaseException as ex:
        acc.observe("pair-construction-rejected:%s" % type(ex).__name__)
        return
    if "result_code" not in aparams and shape in ("rc", "both", "e-preset"):
        answer.append(ResultCodeAVP(rc))
    info = {"pair": "%s.%s" % (lib, rq.__name__), "rc": rc if shape in ("rc", "both", "e-preset") else None, "er": shape in ("er", "both"),
            "shape": shape, "answer_has_sid": answer.has_avp("session_id_avp"), "sid_len": len(sid) if sid else None}
    if shape == "e-preset":
        # the handler hands over an answer that already has the E flag - set for this answer, or left over from an earlier
        # use of the same object with another Result-Code: the flag that is *sent* follows the Result-Code that is sent
        answer.header.set_error_bit(True)
        info["e_preset"] = True
        if not ((rc // 1000) in (3, 4, 5) and rc % 1000):
            info["shape"] = "e-preset-on-non-error-code"
    wit = {"info": info, "request": rplan.describe(), "answer_args": sorted(aplan.kwargs), "request_wire": request.dump().hex(),
           "answer_wire_before": answer.dump().hex()}
    acc.evaluations += 1
    fam = rc // 1000 if rc < 10000 else "big"
    acc.sigs.add(harness.sig_hash("%s/%s/f%s/s%s" % (info["pair"], info["shape"], fam, (len(sid) % 4) if sid else "-")))
    judge(acc, request, answer, info, wit)
    if acc.evaluations % 997 == 1:
        acc.sample({"pair": info["pair"], "result_code": rc, "shape": info["shape"], "session_id_len": info["sid_len"]})


def template_case(acc, g, rc, shape):
    """One answer object kept by the application and returned for request after request (a prebuilt template): every time it
    leaves, it carries the identity of the request it answers now and a Message Length that matches what is sent."""
    from bromelia.base import DiameterRequest, DiameterAnswer, DiameterHeader
    from bromelia.avps import SessionIdAVP, ResultCodeAVP, OriginHostAVP, ExperimentalResultAVP, VendorIdAVP, ExperimentalResultCodeAVP
    r = g.rng
    f = g.header_fields()
    an = DiameterAnswer(command_code=f["code"], application_id=r.choice([0, f["app_id"], 16777251]))
    an.append(SessionIdAVP(g.octets(residue=r.randrange(4), minlen=5)))
    if shape in ("rc", "both"):
        an.append(ResultCodeAVP(rc))
    if shape in ("er", "both"):
        an.append(ExperimentalResultAVP([VendorIdAVP(10415), ExperimentalResultCodeAVP(rc)]))
    an.append(OriginHostAVP(g.identity()))
    uses = r.randrange(2, 6)
    for k in range(uses):
        rq = DiameterRequest(header=DiameterHeader(command_code=f["code"], application_id=f["app_id"], hop_by_hop=r.randrange(2 ** 32), end_to_end=r.randrange(2 ** 32)))
        has_sid = r.random() < 0.75
        sid = g.octets(residue=r.randrange(4), minlen=5)
        if has_sid:
            rq.append(SessionIdAVP(sid))
        rq.append(OriginHostAVP(g.identity()))
        # after its first use the template has lost the Result-Code it carried beside an Experimental-Result
        has_rc = shape == "rc" or (shape == "both" and k == 0)
        info = {"pair": "template", "rc": rc if has_rc else None, "er": shape in ("er", "both"), "shape": "template-%s-use%d" % (shape, min(k, 2)),
                "answer_has_sid": True, "sid_len": len(sid)}
        acc.evaluations += 1
        acc.counters["template_answers_reused"] += k > 0
        acc.sigs.add(harness.sig_hash("template/%s/f%s/%s/%d/u%d" % (shape, rc // 1000 if rc < 10000 else "big", has_sid, len(sid) % 4, min(k, 3))))
        nv = len(acc.violations)
        judge(acc, rq, an, info, {"info": info, "use": k, "header": f, "request_wire": rq.dump().hex(), "answer_wire_before": an.dump().hex()})
        if len(acc.violations) > nv:
            return


def generic_case(acc, g, rc):
    from bromelia.base import DiameterRequest, DiameterAnswer, DiameterHeader
    from bromelia.avps import SessionIdAVP, ResultCodeAVP, OriginHostAVP
    r = g.rng
    f = g.header_fields()
    rq = DiameterRequest(header=DiameterHeader(command_code=f["code"], application_id=f["app_id"], hop_by_hop=f["hbh"], end_to_end=f["e2e"]))
    has_sid = r.random() < 0.7
    sid = g.octets(residue=r.randrange(4), minlen=5)
    if has_sid:
        rq.append(SessionIdAVP(sid))
    rq.append(OriginHostAVP(g.identity()))
    an = DiameterAnswer(command_code=f["code"], application_id=r.choice([0, f["app_id"], 16777251]))
    if has_sid or r.random() < 0.5:
        an.append(SessionIdAVP(g.octets(residue=r.randrange(4), minlen=5)))
    an.append(ResultCodeAVP(rc))
    for _ in range(r.randrange(0, 3)):
        sp = g.any_avp(maxdepth=3)
        if sp.lavp.code in (263, 268, 297) and sp.lavp.vendor is None:
            continue        # a second Session-Id / Result-Code / Experimental-Result would make the case ambiguous
        an.append(sp.build())
    info = {"pair": "generic", "rc": rc, "er": False, "shape": "rc", "answer_has_sid": an.has_avp("session_id_avp"), "sid_len": len(sid)}
    acc.evaluations += 1
    acc.sigs.add(harness.sig_hash("generic/f%s/%s/%d" % (rc // 1000 if rc < 10000 else "big", has_sid, len(sid) % 4)))
    judge(acc, rq, an, info, {"info": info, "header": f, "request_wire": rq.dump().hex(), "answer_wire_before": an.dump().hex()})


ROUTE_STYLES = ["typed", "generic-own-ids", "from-request-header", "own-header-with-request-ids", "reused-answer-object"]


def route_stage(acc, g, b):
    """The second observation point of the statement: the message that reaches the connection worker after a route handler
    returned it.  A real Bromelia object with in-process workers (bvm/appnode.py); handlers build their answers the ways
    applications do - a typed class, a generic answer with identifiers of its own, an answer built on the request's own header
    (the style of the repository's examples), a fresh header that already carries the request's identifiers, one answer object
    used again for the next request - with Result-Codes of every family, Experimental-Results, both, and a pre-set E flag."""
    from bvm import appnode, vsched
    from bromelia.base import DiameterAnswer, DiameterHeader
    from bromelia.avps import (SessionIdAVP, ResultCodeAVP, OriginHostAVP, OriginRealmAVP, ExperimentalResultAVP, VendorIdAVP,
                               ExperimentalResultCodeAVP)
    rng = g.rng
    sched = vsched.Sched(seed=b["seed"], strategy="rr", max_steps=400_000, wall_s=120)
    LIB_OF = {"S6a": "etsi_3gpp_s6a", "Gx": "etsi_3gpp_gx", "Rx": "etsi_3gpp_rx", "SWx": "etsi_3gpp_swx", "S13": "etsi_3gpp_s13"}
    apps = rng.sample(sorted(LIB_OF), 2)
    h = None
    try:
        h = appnode.AppHarness(sched, apps if rng.random() < 0.5 else ["+".join(apps)])
        app = h.app
        table = RD.command_table()
        classes = {(l, c.__name__): c for l, c in discover.message_classes()}
        current = [None]
        reused = {}
        routes = []
        for name in apps:
            lib = LIB_OF[name]
            reqs = sorted((k, v) for k, v in table.items() if k[0] == lib and v["request"] and k in classes)
            rng.shuffle(reqs)
            for (lib_, cname), row in reqs[:3]:
                rt = {"app": name, "lib": lib, "cls": classes[(lib, cname)], "answer_cls": classes.get((lib, row["pair"] + "Answer")),
                      "app_id": row["app_id"].to_bytes(4, "big"), "code": row["code"].to_bytes(3, "big")}
                routes.append(rt)

                def handler(request, rt=rt):
                    return current[0](request, rt)
                handler.__name__ = "route_%s_%s" % (name, cname)
                app.route(application_id=rt["app_id"], command_code=rt["code"])(handler)
        for i in range(b["n"]):
            rt = rng.choice(routes)
            rc = rng.choice([rng.choice(b["codes"]), rng.randrange(1001, 6000), 5012, 3002, 4001, 2001, 1001])
            shape = rng.choice(["rc", "rc", "rc", "er", "both", "e-preset"])
            style = rng.choice(ROUTE_STYLES)
            sid = (g.identity() + ";%d;%d" % (rng.randrange(2 ** 32), rng.randrange(2 ** 32))).encode()
            sid = (sid + b"x" * 8)[:len(sid) + rng.randrange(4)]
            try:
                request = msggen.make_plan(g, rt["lib"], rt["cls"], subset="random", session_id=sid).build()
            except BaseException as ex:
                acc.observe("pair-construction-rejected:%s" % type(ex).__name__)
                continue
            if not request.has_avp("session_id_avp"):
                continue
            tkey = rt["cls"].__name__
            if style == "reused-answer-object" and tkey in reused:
                # the template built for an earlier request leaves again, untouched by the handler: what it carries now is what
                # its first use left in it (a Result-Code beside an Experimental-Result was taken out then)
                _a, rc, shape0 = reused[tkey]
                shape = "er" if shape0 == "both" else "rc" if shape0 == "e-preset" else shape0
                acc.counters["routed_template_reuses"] += 1

            def produce(req, rt, rc=rc, shape=shape, style=style):
                avps = [SessionIdAVP(b"handler;1;1") if style != "from-request-header" else req.session_id_avp]
                if shape in ("rc", "both", "e-preset"):
                    avps.append(ResultCodeAVP(rc))
                if shape in ("er", "both"):
                    avps.append(ExperimentalResultAVP([VendorIdAVP(10415), ExperimentalResultCodeAVP(rc)]))
                avps += [OriginHostAVP(appnode.LOCAL_HOST), OriginRealmAVP(appnode.LOCAL_REALM)]
                if style == "typed" and rt["answer_cls"] is not None:
                    plan = msggen.make_plan(g, rt["lib"], rt["answer_cls"], subset="none")
                    aparams = [p.name for p in msggen.params_of(rt["answer_cls"])]
                    if "result_code" in aparams:
                        plan.kwargs["result_code"] = rc.to_bytes(4, "big") if shape in ("rc", "both", "e-preset") else None
                    if shape in ("er", "both"):
                        er = [VendorIdAVP(10415), ExperimentalResultCodeAVP(rc)]
                        if "experimental_result" in aparams:
                            plan.kwargs["experimental_result"] = er
                        else:
                            plan.kwargs["zz_er"] = ExperimentalResultAVP(er)
                    a = plan.build()
                    if "result_code" not in aparams and shape in ("rc", "both", "e-preset"):
                        a.append(ResultCodeAVP(rc))
                    if not a.has_avp("session_id_avp"):
                        a.append(SessionIdAVP(b"handler;0;0"))
                elif style == "from-request-header":
                    a = DiameterAnswer(header=req.header, avps=avps)
                elif style == "own-header-with-request-ids":
                    a = DiameterAnswer(header=DiameterHeader(command_code=req.header.command_code, application_id=req.header.application_id,
                                                             hop_by_hop=req.header.hop_by_hop, end_to_end=req.header.end_to_end), avps=avps)
                elif style == "reused-answer-object" and rt["cls"].__name__ in reused:
                    return reused[rt["cls"].__name__][0]
                else:
                    a = DiameterAnswer(command_code=rt["code"], application_id=rt["app_id"], avps=avps)
                    if style == "reused-answer-object":
                        reused[rt["cls"].__name__] = (a, rc, shape)
                if shape == "e-preset" and not a.header.is_error():
                    a.header.set_error_bit(True)
                return a
            current[0] = produce
            before = len(h.sent())
            thr = app.create_message_thread(request)
            finished = sched.run_until(lambda: thr.done, 10.0, "dispatch")
            sched.run_until(lambda: False, 0.01, "drain")
            new = [m for _, m in h.sent()[before:]]
            acc.evaluations += 1
            acc.counters["routed_requests"] += 1
            info = {"pair": "%s.%s" % (rt["lib"], rt["cls"].__name__), "rc": rc if shape in ("rc", "both", "e-preset") else None, "er": shape in ("er", "both"),
                    "shape": shape, "style": style, "stage": "route"}
            if shape == "e-preset":
                info["e_preset"] = True
            wit = {"info": info, "request_wire": request.dump().hex()[:600], "apps": apps}
            acc.sigs.add(harness.sig_hash("route/%s/%s/%s/f%s" % (info["pair"], style, shape, rc // 1000 if rc < 10000 else "big")))
            if not finished or len(new) != 1:
                # how many answers leave is C13's question; here it is only noted
                acc.observe("route-stage:%d-messages-for-one-request:%s" % (len(new), style))
                if sched.deaths:
                    d = sched.deaths[-1]
                    acc.violation("route-handler-answer-kills-dispatch:%s" % d["type"], "style %s shape %s: %s" % (style, shape, d["traceback"][-300:]), wit)
                    return
                continue
            req_ids = (request.header.get_application_id(), request.header.get_hop_by_hop(), request.header.get_end_to_end())
            nv = len(acc.violations)
            judge_out(acc, req_ids, sid, new[0], info, wit)
            acc.counters["routed_answers_judged"] += 1
            acc.counters["routed_style_%s" % style] += 1
            if len(acc.violations) > nv:
                for v in acc.violations[nv:]:
                    v["key"] = "routed:" + v["key"]
    except vsched.DeadlockError as ex:
        acc.violation("route-stage-deadlock", "%s" % ex, {"batch": b})
    except (vsched.WallClock, vsched.StepBudget) as ex:
        acc.inconclusive.append("route stage: %s (%r)" % (ex, b))
    finally:
        if h is not None:
            h.cleanup()
        sched.shutdown()


def run_batch(b):
    acc = harness.Acc()
    if b.get("real"):
        # the application layer as shipped: worker process, Manager queues, real loopback (bvm/realapp.py)
        from bvm import realnet
        realnet.run_cases(acc, b["real"])
        return acc
    g = Gen(b["seed"])
    ps = pairs()
    r = g.rng
    if b["kind"] == "sweep":
        lib, rq, an = ps[b["pair"] % len(ps)]
        for rc in range(b["lo"], b["hi"]):
            if b["typed"]:
                one_case(acc, g, lib, rq, an, rc, "rc", r.choice([0, 0, 21, 22, 23, 24, 60]))
            else:
                generic_case(acc, g, rc)
    elif b["kind"] == "pairs":
        codes = defined_codes()
        for lib, rq, an in ps[b["i"]::b["m"]]:
            for rc in codes:
                for shape in ("rc", "er", "both", "e-preset"):
                    one_case(acc, g, lib, rq, an, rc, shape, r.choice([0, 17, 18, 19, 20, 95]))
            for _ in range(b["nrand"]):
                rc = r.choice([r.randrange(2 ** 32), r.randrange(1000, 6000), r.randrange(0, 70000)])
                one_case(acc, g, lib, rq, an, rc, r.choice(["rc", "rc", "er", "both", "e-preset"]), r.choice([0, 9, 10, 11, 12, 130]))
    elif b["kind"] == "route":
        b = dict(b, codes=defined_codes())
        route_stage(acc, g, b)
    elif b["kind"] == "generic":
        for _ in range(b["n"]):
            generic_case(acc, g, r.choice([r.randrange(2 ** 32), r.randrange(1000, 6000), 2001, 5012, 3008, 4100]))
        for _ in range(b["n"] // 6):
            template_case(acc, g, r.choice([r.randrange(1001, 6000), 2001, 5012, 3008, 4100, 5420]), r.choice(["rc", "er", "both", "both"]))
    return acc


def main(tier, seed):
    t0 = time.time()
    q = tier == "quick"
    batches = []
    step = 4096
    for lo in range(0, 65536, step):
        batches.append({"kind": "sweep", "pair": seed, "lo": lo, "hi": lo + step, "seed": seed * 31337 + lo, "typed": not q})
    m = 25
    for i in range(m):
        batches.append({"kind": "pairs", "i": i, "m": m, "nrand": 20 if q else 12000, "seed": seed * 31337 + 100 + i})
    for i in range(2 if q else 48):
        batches.append({"kind": "generic", "n": 3000 if q else 20000, "seed": seed * 31337 + 200 + i})
    for i in range(8 if q else 200):
        batches.append({"kind": "route", "n": 60 if q else 300, "seed": seed * 31337 + 300 + i})
    for i in range(3 if q else 40):
        # one execution per worker process: Bromelia.run() leaves a Manager and a worker process behind that a second run in the
        # same interpreter cannot share
        batches.append({"real": [{"kind": "app", "seed": seed * 389 + i * 23, "judge": "decoration"}]})
    acc = harness.run_workers("checks.c12_decorate_answer", "run_batch", batches, 1500)
    return harness.finish(PROP, tier, seed, "exploration", acc, RULE,
                          ["multiples of 1000 and answers carrying both Result-Code and Experimental-Result are not judged for the E flag",
                           "an answer without Session-Id for a request that has one makes decorate_answer raise AttributeError: observed, not judged (the statement does not cover it)",
                           "the message that reaches the connection worker is judged with the same oracle in the route stage (real Bromelia object, in-process workers, handlers building their answers in five styles) and on the real loopback"],
                          t0, require_counters=("decorate_calls", "e_flag_judged", "template_answers_reused", "routed_answers_judged", "real_loopback_ok"))


def replay(w):
    print("witness:", str(w["witness"])[:3000])
    return 1
