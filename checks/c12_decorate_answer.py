"""C12 - answers leaving a route carry the request's identity and a correct error flag.

Postcondition monitor on bromelia.bromelia.decorate_answer (the function every routed answer goes
through; the message later placed on the worker's send queue is observed by C13)."""
import random
import time

from bvm import harness, discover, refcodec as R, refdict as RD, msggen
from bvm.gen import Gen

PROP = "C12"
RULE = ("typed request/answer pairs of every command (arguments generated as in C09) and generic pairs; Result-Code "
        "over all 0..65535 on one pair, every code defined in result_codes.py / experimental_result_codes.py on every "
        "pair, random 32-bit codes; Session-Ids of every length residue, longer and shorter than the answer's own; "
        "answers with Experimental-Result, with both, with E pre-set; oracle: request identity + n // 1000 in {3,4,5}; "
        "distinct = (pair, result-code family or code, session-id residue, answer shape)")


def defined_codes():
    import bromelia.constants.result_codes as rc
    import bromelia.constants.experimental_result_codes as erc
    out = set()
    for m in (rc, erc):
        for k, v in vars(m).items():
            if k.startswith("DIAMETER_") and isinstance(v, bytes) and len(v) == 4 and "XXX" not in k:
                out.add(int.from_bytes(v, "big"))
    return sorted(out)


def pairs():
    t = RD.command_table()
    classes = {(l, c.__name__): c for l, c in discover.message_classes()}
    out = []
    for (lib, name), row in t.items():
        if row["request"] and (lib, row["pair"] + "Answer") in classes and (lib, name) in classes:
            out.append((lib, classes[(lib, name)], classes[(lib, row["pair"] + "Answer")]))
    return sorted(out, key=lambda x: (x[0], x[1].__name__))


def judge(acc, request, answer, info, wit):
    from bromelia.bromelia import decorate_answer
    from bromelia.base import DiameterAnswer
    req_ids = (request.header.get_application_id(), request.header.get_hop_by_hop(), request.header.get_end_to_end())
    req_sid = request.session_id_avp.data if request.has_avp("session_id_avp") else None
    before = [(type(a).__name__, a.dump()) for a in answer.avps]
    acc.counters["decorate_calls"] += 1
    try:
        out = decorate_answer(answer, request)
    except AttributeError as ex:
        if req_sid is not None and not info["answer_has_sid"]:
            acc.observe("answer-without-session-id-for-request-with-one:AttributeError")
            return
        acc.violation("decorate-raises:AttributeError", "decorate_answer raised %r" % (ex,), wit)
        return
    except BaseException as ex:
        key = "decorate-raises:%s" % type(ex).__name__
        if info.get("e_preset"):
            key = "decorate-raises-when-E-preset"
        acc.violation(key, "decorate_answer raised %s: %s (%s)" % (type(ex).__name__, ex, info), wit)
        return
    try:
        wire = out.dump()
        lm = R.decode(wire)[0]
    except BaseException as ex:
        acc.violation("decorated-answer-not-well-formed", "dump()/reference decode failed: %r" % (ex,), wit)
        return
    if (lm.app_id, lm.hbh, lm.e2e) != req_ids:
        acc.violation("identity-not-copied", "answer (app, hbh, e2e) = %r, request %r" % ((lm.app_id, lm.hbh, lm.e2e), req_ids), wit)
    if int.from_bytes(wire[1:4], "big") != len(wire) or out.header.get_length() != len(wire):
        acc.violation("message-length-stale", "Message Length %d, serialised size %d (%s)" % (out.header.get_length(), len(wire), info), wit)
    sids = [a for a in lm.avps if a.code == 263 and a.vendor is None]
    if req_sid is not None:
        if len(sids) != 1 or sids[0].value != req_sid:
            acc.violation("session-id-not-copied", "answer Session-Id %r, request %r" % ([s.value for s in sids], req_sid), wit)
    has_rc = [a for a in lm.avps if a.code == 268 and a.vendor is None]
    has_er = [a for a in lm.avps if a.code == 297 and a.vendor is None]
    if has_rc and has_er:
        acc.violation("result-code-alongside-experimental-result", "both Result-Code and Experimental-Result are sent", wit)
    n = info.get("rc")
    if n is not None and not info.get("er") and n % 1000 != 0 and not info.get("e_preset_inconsistent"):
        want = (n // 1000) in (3, 4, 5)
        got = bool(lm.flags & 0x20)
        if got != want:
            acc.violation("error-flag-%s" % ("missing" if want else "spurious"),
                          "Result-Code %d: E flag %r, family rule says %r" % (n, got, want), wit)
        acc.counters["e_flag_judged"] += 1
    if lm.flags & 0x80:
        acc.violation("answer-has-r-flag", "decorated answer carries the R flag", wit)
    # other AVPs untouched and in order
    after = [(type(a).__name__, a.dump()) for a in out.avps]
    strip = lambda seq: [x for x in seq if x[0] not in ("SessionIdAVP", "ResultCodeAVP")]
    if strip(before) != strip(after):
        acc.violation("other-avps-changed", "AVPs other than Session-Id/Result-Code changed", wit)


def one_case(acc, g, lib, rq, an, rc, shape, sid_len):
    from bromelia.avps import ExperimentalResultAVP, VendorIdAVP, ExperimentalResultCodeAVP, ResultCodeAVP, SessionIdAVP
    r = g.rng
    rparams = [p.name for p in msggen.params_of(rq)]
    aparams = [p.name for p in msggen.params_of(an)]
    sid = None
    if "session_id" in rparams:
        sid = (g.identity() + ";%d;%d" % (r.randrange(2 ** 32), r.randrange(2 ** 32))).encode()
        sid = (sid + b"x" * 64)[:max(sid_len, 5)] if sid_len else sid
    try:
        rplan = msggen.make_plan(g, lib, rq, subset="random", session_id=sid)
        request = rplan.build()
        aplan = msggen.make_plan(g, lib, an, subset="random")
        if "result_code" in aparams:
            if shape in ("rc", "both", "e-preset"):
                aplan.kwargs["result_code"] = rc if r.random() < 0.5 else rc.to_bytes(4, "big")
            elif shape == "er":
                aplan.kwargs["result_code"] = None
        er = None
        if shape in ("er", "both"):
            er = [VendorIdAVP(10415), ExperimentalResultCodeAVP(rc)]
            if "experimental_result" in aparams:
                aplan.kwargs["experimental_result"] = er
            else:
                aplan.kwargs["zz_er"] = ExperimentalResultAVP(er)
        answer = aplan.build()
    except BaseException as ex:
        acc.observe("pair-construction-rejected:%s" % type(ex).__name__)
        return
    if "result_code" not in aparams and shape in ("rc", "both", "e-preset"):
        answer.append(ResultCodeAVP(rc))
    info = {"pair": "%s.%s" % (lib, rq.__name__), "rc": rc if shape in ("rc", "both", "e-preset") else None, "er": shape in ("er", "both"),
            "shape": shape, "answer_has_sid": answer.has_avp("session_id_avp"), "sid_len": len(sid) if sid else None}
    if shape == "e-preset":
        # the handler hands over an answer that already has the E flag - set for this answer, or left over from an earlier
        # use of the same object with another Result-Code: the flag that is *sent* follows the Result-Code that is sent
        answer.header.set_error_bit(True)
        info["e_preset"] = True
        if not ((rc // 1000) in (3, 4, 5) and rc % 1000):
            info["shape"] = "e-preset-on-non-error-code"
    wit = {"info": info, "request": rplan.describe(), "answer_args": sorted(aplan.kwargs), "request_wire": request.dump().hex(),
           "answer_wire_before": answer.dump().hex()}
    acc.evaluations += 1
    fam = rc // 1000 if rc < 10000 else "big"
    acc.sigs.add(harness.sig_hash("%s/%s/f%s/s%s" % (info["pair"], info["shape"], fam, (len(sid) % 4) if sid else "-")))
    judge(acc, request, answer, info, wit)
    if acc.evaluations % 997 == 1:
        acc.sample({"pair": info["pair"], "result_code": rc, "shape": info["shape"], "session_id_len": info["sid_len"]})


def generic_case(acc, g, rc):
    from bromelia.base import DiameterRequest, DiameterAnswer, DiameterHeader
    from bromelia.avps import SessionIdAVP, ResultCodeAVP, OriginHostAVP
    r = g.rng
    f = g.header_fields()
    rq = DiameterRequest(header=DiameterHeader(command_code=f["code"], application_id=f["app_id"], hop_by_hop=f["hbh"], end_to_end=f["e2e"]))
    has_sid = r.random() < 0.7
    sid = g.octets(residue=r.randrange(4), minlen=5)
    if has_sid:
        rq.append(SessionIdAVP(sid))
    rq.append(OriginHostAVP(g.identity()))
    an = DiameterAnswer(command_code=f["code"], application_id=r.choice([0, f["app_id"], 16777251]))
    if has_sid or r.random() < 0.5:
        an.append(SessionIdAVP(g.octets(residue=r.randrange(4), minlen=5)))
    an.append(ResultCodeAVP(rc))
    for _ in range(r.randrange(0, 3)):
        sp = g.any_avp(maxdepth=3)
        if sp.lavp.code in (263, 268, 297) and sp.lavp.vendor is None:
            continue        # a second Session-Id / Result-Code / Experimental-Result would make the case ambiguous
        an.append(sp.build())
    info = {"pair": "generic", "rc": rc, "er": False, "shape": "rc", "answer_has_sid": an.has_avp("session_id_avp"), "sid_len": len(sid)}
    acc.evaluations += 1
    acc.sigs.add(harness.sig_hash("generic/f%s/%s/%d" % (rc // 1000 if rc < 10000 else "big", has_sid, len(sid) % 4)))
    judge(acc, rq, an, info, {"info": info, "header": f, "request_wire": rq.dump().hex(), "answer_wire_before": an.dump().hex()})


def run_batch(b):
    acc = harness.Acc()
    if b.get("real"):
        # the application layer as shipped: worker process, Manager queues, real loopback (bvm/realapp.py)
        from bvm import realnet
        realnet.run_cases(acc, b["real"])
        return acc
    g = Gen(b["seed"])
    ps = pairs()
    r = g.rng
    if b["kind"] == "sweep":
        lib, rq, an = ps[b["pair"] % len(ps)]
        for rc in range(b["lo"], b["hi"]):
            if b["typed"]:
                one_case(acc, g, lib, rq, an, rc, "rc", r.choice([0, 0, 21, 22, 23, 24, 60]))
            else:
                generic_case(acc, g, rc)
    elif b["kind"] == "pairs":
        codes = defined_codes()
        for lib, rq, an in ps[b["i"]::b["m"]]:
            for rc in codes:
                for shape in ("rc", "er", "both", "e-preset"):
                    one_case(acc, g, lib, rq, an, rc, shape, r.choice([0, 17, 18, 19, 20, 95]))
            for _ in range(b["nrand"]):
                rc = r.choice([r.randrange(2 ** 32), r.randrange(1000, 6000), r.randrange(0, 70000)])
                one_case(acc, g, lib, rq, an, rc, r.choice(["rc", "rc", "er", "both", "e-preset"]), r.choice([0, 9, 10, 11, 12, 130]))
    elif b["kind"] == "generic":
        for _ in range(b["n"]):
            generic_case(acc, g, r.choice([r.randrange(2 ** 32), r.randrange(1000, 6000), 2001, 5012, 3008, 4100]))
    return acc


def main(tier, seed):
    t0 = time.time()
    q = tier == "quick"
    batches = []
    step = 4096
    for lo in range(0, 65536, step):
        batches.append({"kind": "sweep", "pair": seed, "lo": lo, "hi": lo + step, "seed": seed * 31337 + lo, "typed": not q})
    m = 25
    for i in range(m):
        batches.append({"kind": "pairs", "i": i, "m": m, "nrand": 20 if q else 12000, "seed": seed * 31337 + 100 + i})
    for i in range(2 if q else 48):
        batches.append({"kind": "generic", "n": 3000 if q else 20000, "seed": seed * 31337 + 200 + i})
    for i in range(3 if q else 40):
        # one execution per worker process: Bromelia.run() leaves a Manager and a worker process behind that a second run in the
        # same interpreter cannot share
        batches.append({"real": [{"kind": "app", "seed": seed * 389 + i * 23, "judge": "decoration"}]})
    acc = harness.run_workers("checks.c12_decorate_answer", "run_batch", batches, 1500)
    return harness.finish(PROP, tier, seed, "exploration", acc, RULE,
                          ["multiples of 1000 and answers carrying both Result-Code and Experimental-Result are not judged for the E flag",
                           "an answer without Session-Id for a request that has one makes decorate_answer raise AttributeError: observed, not judged (the statement does not cover it)",
                           "the message placed on the worker's send queue is observed by C13 through the same function"],
                          t0, require_counters=("decorate_calls", "e_flag_judged", "real_loopback_ok"))


def replay(w):
    print("witness:", str(w["witness"])[:3000])
    return 1
